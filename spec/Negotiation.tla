----------------------------- MODULE Negotiation -----------------------------
(***************************************************************************)
(* What two endpoints may agree on, given each side's HandshakeSettings    *)
(* and credentials (C03, C19b; rule table DESIGN.md Appendix F.3).         *)
(*                                                                         *)
(* Abstract settings s: [vers: SUBSET 0..4, ciphers, macs, kexs: sets of    *)
(* setting names, curves, dhGroups: sets of group names, minKey, maxKey,    *)
(* etm, ems, reqEms: BOOLEAN, rsl: Nat (0 = not sent), alpn: Seq(name),     *)
(* sigHashes: set of names].                                                *)
(* A view v (what one endpoint reports after a completed handshake):        *)
(* [ver, tokens (IANA name of the suite), ems, etm, alpn, sni, sendLimit,    *)
(*  recvLimit, group, keyBits, certKey, secretH, exporterH, srvChainH,       *)
(*  cltChainH, resumed].                                                     *)
(* The specification does NOT predict which admissible outcome is chosen    *)
(* (preference order is not part of the property) - except the version,     *)
(* which must be the highest one both sides enable.                          *)
(***************************************************************************)
EXTENDS Suites

BrainpoolLegacy == {"brainpoolP256r1", "brainpoolP384r1", "brainpoolP512r1"}
BrainpoolTLS13Only == {"brainpoolP256r1tls13", "brainpoolP384r1tls13", "brainpoolP512r1tls13"}

Max(S) == CHOOSE x \in S : \A y \in S : y <= x
MinN(a, b) == IF a < b THEN a ELSE b

\* ---- Agreement: both ends hold identical values
Agreement(c, s) ==
  /\ c.ver = s.ver /\ c.tokens = s.tokens
  /\ c.secretH = s.secretH /\ c.exporterH = s.exporterH
  /\ c.ems = s.ems /\ c.etm = s.etm
  /\ c.alpn = s.alpn /\ c.sni = s.sni
  /\ c.sendLimit = s.recvLimit /\ c.recvLimit = s.sendLimit
  \* certificate chains exchanged in this handshake (a resumed handshake exchanges none: reported as "")
  /\ (c.resumed = s.resumed => c.srvChainH = s.srvChainH /\ c.cltChainH = s.cltChainH)
  \* the (EC)DHE group is not among the values the property lists; where both ends report it, it must agree
  /\ (c.group # "" /\ s.group # "" => c.group = s.group)
  \* whether and how a pre-shared key entered the key schedule
  /\ c.pskMode = s.pskMode

\* ---- WithinPolicy of ONE side
SuiteAllowed(st, t, ver) ==
  /\ \E n \in st.ciphers : CipherNameOk(t, n)
  /\ (IF Aead(t) THEN "aead" \in st.macs ELSE MacName(t) \in st.macs)
  /\ (ver < 4 => Kex(t) \in st.kexs)
  /\ DefinedAt(t, ver)

GroupAllowed(st, t, ver, g) ==
  \* (EC)DHE group: elliptic curves and x25519/x448 by name; finite-field groups by name when RFC 7919 was used
  IF ver = 4 \/ Kex(t) \in {"ecdhe_rsa", "ecdhe_ecdsa", "ecdh_anon"}
  THEN (g # "" => g \in st.curves \cup st.dhGroups)
  \* finite-field DHE in TLS <= 1.2: a group the harness recognised as an RFC 7919 group must be enabled;
  \* ("custom-<bits>" = another prime: allowed only where RFC 7919 negotiation has nothing to offer, see FfdheRule)
  \* (SSLv3 has no supported_groups extension: nothing is negotiated there)
  ELSE IF ver >= 1 /\ Kex(t) \in {"dhe_rsa", "dhe_dsa", "dh_anon"} /\ g \in {"ffdhe2048", "ffdhe3072", "ffdhe4096", "ffdhe6144", "ffdhe8192"}
  THEN g \in st.dhGroups
  ELSE TRUE

\* RFC 7919: when the client's supported_groups names finite-field groups and the server enables one of them,
\* the server uses such a common group (never a prime outside both policies)
FfdheRule(cs, ss, v) ==
  (v.ver < 4 /\ v.ver >= 1 /\ Kex(v.tokens) \in {"dhe_rsa", "dhe_dsa", "dh_anon"} /\ v.group # "" /\ (cs.dhGroups \cap ss.dhGroups) # {})
     => v.group \in (cs.dhGroups \cap ss.dhGroups)

WithinPolicy(st, v, isClient) ==
  /\ v.ver \in st.vers
  /\ SuiteAllowed(st, v.tokens, v.ver)
  /\ GroupAllowed(st, v.tokens, v.ver, v.group)
  /\ (v.etm => (st.etm /\ BlockLen(v.tokens) > 0 /\ v.ver < 4))
  /\ (v.ems => st.ems)
  /\ (st.reqEms /\ v.ver < 4 => v.ems)
  \* the client checks the size of the server's key; key sizes in bits, 0 = not applicable (anonymous / EC)
  /\ (isClient /\ v.keyBits > 0 => (v.keyBits >= st.minKey /\ v.keyBits <= st.maxKey))
  \* the server checks the size of the client's key when it authenticated with a certificate
  /\ (~isClient /\ v.cltKeyBits > 0 => (v.cltKeyBits >= st.minKey /\ v.cltKeyBits <= st.maxKey))
  /\ (v.alpn # "" => \E i \in 1..Len(st.alpn) : st.alpn[i] = v.alpn)
  \* the signature the server made (as the client verified it): hash and RSA padding scheme enabled on this side
  /\ (v.sigKind = "ecdsa" => v.sigHash \in st.ecdsaHashes)
  /\ (v.sigKind = "rsa-pkcs1" => ("pkcs1" \in st.rsaSchemes /\ v.sigHash \in st.rsaHashes))
  /\ (v.sigKind = "rsa-pss" => ("pss" \in st.rsaSchemes /\ v.sigHash \in st.rsaHashes))
  \* a PSK is combined with a key exchange mode this side allows (psk_ke gives up forward secrecy)
  /\ (v.pskMode # "" => v.pskMode \in st.pskModes)

\* record size limits as RFC 8449 defines them from the two settings
LimitToward(receiverRsl, senderRsl, ver) ==
  IF receiverRsl > 0 /\ senderRsl > 0
  THEN MinN(16384, receiverRsl - (IF ver = 4 THEN 1 ELSE 0)) ELSE 16384

Outcome(cs, ss, c, s) ==
  /\ Agreement(c, s)
  /\ WithinPolicy(cs, c, TRUE) /\ WithinPolicy(ss, s, FALSE)
  /\ FfdheRule(cs, ss, c)
  /\ c.ver = Max(cs.vers \cap ss.vers)                         \* highest common version: no self-inflicted downgrade
  \* SSLv3 defines no extensions: a ClientHello that also offers TLS carries them and tlslite-ng servers honour
  \* them, an SSLv3-only ClientHello has none - either way both ends must hold the same pair of limits
  /\ \/ /\ c.sendLimit = LimitToward(ss.rsl, cs.rsl, c.ver)
        /\ s.sendLimit = LimitToward(cs.rsl, ss.rsl, c.ver)
     \/ c.ver = 0 /\ c.sendLimit = 16384 /\ s.sendLimit = 16384

\* ---- compatible settings must connect (C19b): a shared version and, for the highest one, a
\* suite both allow that the server's credentials can serve, a group and EMS compatibility
CredServes(certKey, t, ver) ==
  IF ver = 4 THEN certKey \in {"rsa", "ecdsa", "rsapss"}
  ELSE IF certKey = "anon" THEN CertKey(t) = "none" /\ Kex(t) \in {"dh_anon", "ecdh_anon"}
  ELSE IF certKey = "rsapss"
       \* an rsa-pss certificate signs (RSA-PSS, TLS 1.2 only) but cannot decrypt a ClientKeyExchange
       THEN ver = 3 /\ CertKey(t) = "rsa" /\ Kex(t) # "rsa"
  ELSE CASE CertKey(t) = "none" -> TRUE [] CertKey(t) = "any" -> FALSE [] OTHER -> CertKey(t) = certKey
\* a signature algorithm both sides enable for the server's key (TLS 1.2: signature_algorithms; TLS 1.3: RSA only as
\* PSS with SHA-2, ECDSA with the hash bound to the curve; before TLS 1.2 nothing is negotiated)
Sha2 == {"sha256", "sha384", "sha512"}
CurveHash(c) == CASE c = "secp256r1" -> "sha256" [] c = "secp384r1" -> "sha384" [] c = "secp521r1" -> "sha512" [] OTHER -> "sha256"
SigOk(cs, ss, certKey, certCurve, t, v) ==
  \* (the property's premise is a shared signature scheme usable with the server's credentials - also where a
  \* static-RSA suite would need none: tlslite-ng picks a signing suite first and does not fall back)
  IF v < 3 \/ certKey = "anon" THEN TRUE
  ELSE IF certKey = "ecdsa"
       THEN IF v = 4 THEN CurveHash(certCurve) \in (cs.ecdsaHashes \cap ss.ecdsaHashes)
            ELSE (cs.ecdsaHashes \cap ss.ecdsaHashes) # {}
  ELSE IF certKey = "rsa"
       THEN IF v = 4 THEN "pss" \in (cs.rsaSchemes \cap ss.rsaSchemes) /\ (cs.rsaHashes \cap ss.rsaHashes \cap Sha2) # {}
            ELSE \/ "pkcs1" \in (cs.rsaSchemes \cap ss.rsaSchemes) /\ (cs.rsaHashes \cap ss.rsaHashes) # {}
                 \/ "pss" \in (cs.rsaSchemes \cap ss.rsaSchemes) /\ (cs.rsaHashes \cap ss.rsaHashes \cap Sha2) # {}
  ELSE IF certKey = "rsapss"
       THEN "pss" \in (cs.rsaSchemes \cap ss.rsaSchemes) /\ (cs.rsaHashes \cap ss.rsaHashes \cap Sha2) # {}
  ELSE TRUE
MustConnect(cs, ss, certKey, certBits, certCurve, candidates) ==
  /\ cs.vers \cap ss.vers # {}
  /\ LET v == Max(cs.vers \cap ss.vers) IN
       /\ \E i \in 1..Len(candidates) :
            LET t == candidates[i] IN
              /\ SuiteAllowed(cs, t, v) /\ SuiteAllowed(ss, t, v) /\ CredServes(certKey, t, v)
              /\ SigOk(cs, ss, certKey, certCurve, t, v)
              \* finite-field DHE depends on further parameters (group vs. key-size limits): predicted only where neither
              \* side restricts its FFDHE groups or key sizes
              /\ (v = 4 \/ Kex(t) \in {"rsa", "ecdhe_rsa", "ecdhe_ecdsa"} \/ (Kex(t) = "dhe_rsa" /\ v >= 1 /\ cs.dhPlain /\ ss.dhPlain))
              /\ (certBits > 0 => (certBits >= cs.minKey /\ certBits <= cs.maxKey))
              \* an ECDSA certificate must be on a curve the client enables
              /\ (certKey = "ecdsa" => certCurve \in cs.curves)
              \* TLS <= 1.2 ECDHE needs a common curve (for TLS 1.3 any common group will do: next conjunct)
              \* (the brainpool curves have two sets of code points: RFC 7027 for TLS <= 1.2, RFC 8734 for TLS 1.3)
              /\ (v < 4 /\ Kex(t) \in {"ecdhe_rsa", "ecdhe_ecdsa"} => ((cs.curves \cap ss.curves) \ BrainpoolTLS13Only) # {})
       /\ (v = 4 => (((cs.curves \cup cs.dhGroups) \cap (ss.curves \cup ss.dhGroups)) \ BrainpoolLegacy) # {})
       /\ (v < 4 /\ v > 0 => ~(cs.reqEms /\ ~ss.ems) /\ ~(ss.reqEms /\ ~cs.ems))
       /\ (v = 0 => ~cs.reqEms /\ ~ss.reqEms)                          \* SSLv3 has no extensions
       \* ... so the client cannot name its curves: predictable only if neither side uses ECDHE or both have the
       \* curve a server assumes (secp256r1)
       /\ (v = 0 => cs.curves = {} \/ ss.curves = {} \/ "secp256r1" \in (cs.curves \cap ss.curves))
       \* ALPN: both configured and disjoint lists end in no_application_protocol
       /\ (Len(cs.alpn) > 0 /\ Len(ss.alpn) > 0 => \E i \in 1..Len(cs.alpn), j \in 1..Len(ss.alpn) : cs.alpn[i] = ss.alpn[j])
\* with client authentication: the client's certificate must also fit the server's key-size policy
MustConnectCA(cs, ss, certKey, certBits, certCurve, candidates, cltBits) ==
  /\ MustConnect(cs, ss, certKey, certBits, certCurve, candidates)
  /\ (cltBits > 0 => (cltBits >= ss.minKey /\ cltBits <= ss.maxKey))
  \* ... and its (RSA) key needs a signature algorithm the server's CertificateRequest lists
  /\ (cltBits > 0 /\ (cs.vers \cap ss.vers) # {} =>
        LET v == Max(cs.vers \cap ss.vers) IN
          IF v < 3 THEN TRUE
          ELSE IF v = 4 THEN "pss" \in (cs.rsaSchemes \cap ss.rsaSchemes) /\ (cs.rsaHashes \cap ss.rsaHashes \cap Sha2) # {}
          ELSE \/ "pkcs1" \in (cs.rsaSchemes \cap ss.rsaSchemes) /\ (cs.rsaHashes \cap ss.rsaHashes) # {}
               \/ "pss" \in (cs.rsaSchemes \cap ss.rsaSchemes) /\ (cs.rsaHashes \cap ss.rsaHashes \cap Sha2) # {})
=============================================================================
