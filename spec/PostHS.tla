------------------------------- MODULE PostHS -------------------------------
(***************************************************************************)
(* Post-handshake control traffic on top of the record layer (Record.tla): *)
(* TLS 1.3 KeyUpdate (requested / not requested, either side, any number), *)
(* NewSessionTicket, post-handshake client authentication, heartbeat       *)
(* request/response (TLS <= 1.2 and 1.3).  (C16)                            *)
(*                                                                         *)
(* Keys stay in step because a record is accepted only under the epoch and *)
(* sequence number it was protected with (Record.tla IsNext); this module  *)
(* adds WHEN each side must switch keys and what control messages oblige:  *)
(*  - after sending KeyUpdate the sender switches its write key before it  *)
(*    sends anything else in that direction;                               *)
(*  - after accepting KeyUpdate the receiver switches its read key before   *)
(*    it accepts anything else; if update_requested it owes a KeyUpdate of  *)
(*    its own before it sends more application data;                        *)
(*  - a heartbeat response is sent only for an outstanding accepted request *)
(*    and carries exactly its payload;                                      *)
(*  - the server records the client's post-handshake certificate only      *)
(*    after the client's Finished of that exchange was accepted.            *)
(***************************************************************************)
EXTENDS Record

VARIABLES
  hsDone,   \* the handshake is over: the obligations below apply
  tok,      \* [Dir -> Seq(token)] aligned with sent[d]: what each record carries
  kuW,      \* [Dir -> BOOLEAN] KeyUpdate sent in d, write key not switched yet
  kuR,      \* [Dir -> BOOLEAN] KeyUpdate accepted in d, read key not switched yet
  owed,     \* [Dir -> BOOLEAN] the sender of d owes a KeyUpdate (peer asked for one)
  hbOut,    \* [Dir -> SUBSET [ph, len]] heartbeat requests accepted from d, not yet answered
  phaFin,   \* client's post-handshake Finished accepted by the server, chain not yet recorded
  certRec   \* number of times the server recorded a (new) client certificate chain post-handshake

pvars == <<hsDone, tok, kuW, kuR, owed, hbOut, phaFin, certRec>>
allvars == <<vars, pvars>>

Tk(t, a, b) == [t |-> t, a |-> a, b |-> b]
Plain == Tk("-", 0, 0)

PInit ==
  /\ hsDone = FALSE
  /\ tok = [d \in Dir |-> <<>>]
  /\ kuW = [d \in Dir |-> FALSE] /\ kuR = [d \in Dir |-> FALSE] /\ owed = [d \in Dir |-> FALSE]
  /\ hbOut = [d \in Dir |-> {}]
  /\ phaFin = FALSE /\ certRec = 0

\* ---- sending
PSend(d, ct, k, t) ==        \* one record carrying token t
  /\ ~(hsDone /\ kuW[d])                        \* nothing may follow a KeyUpdate under the old key
  /\ IF ct = APP THEN ~(hsDone /\ owed[d]) /\ SendApp(d, k) ELSE SendCtl(d, ct, k)
  /\ tok' = [tok EXCEPT ![d] = Append(@, t)]
  /\ IF t.t = "ku"
     THEN kuW' = [kuW EXCEPT ![d] = TRUE] /\ owed' = [owed EXCEPT ![d] = FALSE]
     ELSE UNCHANGED <<kuW, owed>>
  /\ IF t.t = "hbresp"
     THEN /\ [ph |-> t.a, len |-> t.b] \in hbOut[Other(d)]                 \* EchoExact
          /\ hbOut' = [hbOut EXCEPT ![Other(d)] = @ \ {[ph |-> t.a, len |-> t.b]}]
     ELSE UNCHANGED hbOut
  /\ UNCHANGED <<hsDone, kuR, phaFin, certRec>>

PKeyChangeW(d) ==
  /\ (hsDone => kuW[d])
  /\ KeyChangeW(d)
  /\ kuW' = [kuW EXCEPT ![d] = FALSE]
  /\ UNCHANGED <<hsDone, tok, kuR, owed, hbOut, phaFin, certRec>>

\* ---- receiving
PAccept(d) ==
  /\ ~(hsDone /\ kuR[d])                        \* the read key must be switched first
  /\ Accept(d)
  /\ LET t == tok[d][Len(acc[d]) + 1] IN
       /\ kuR' = [kuR EXCEPT ![d] = (t.t = "ku")]
       /\ owed' = IF t.t = "ku" /\ t.a = 1 THEN [owed EXCEPT ![Other(d)] = TRUE] ELSE owed
       /\ hbOut' = IF t.t = "hbreq" /\ t.b >= 0 THEN [hbOut EXCEPT ![d] = @ \cup {[ph |-> t.a, len |-> t.b]}] ELSE hbOut
       /\ phaFin' = (phaFin \/ (t.t = "phafin" /\ d = "c2s"))
  /\ UNCHANGED <<hsDone, tok, kuW, certRec>>

PKeyChangeR(d) ==
  /\ (hsDone => kuR[d])
  /\ KeyChangeR(d)
  /\ kuR' = [kuR EXCEPT ![d] = FALSE]
  /\ UNCHANGED <<hsDone, tok, kuW, owed, hbOut, phaFin, certRec>>

\* the server's session now shows a (new) client certificate chain
RecordClientCert ==
  /\ hsDone /\ phaFin                          \* PHAOnlyAfterProof
  /\ phaFin' = FALSE /\ certRec' = certRec + 1
  /\ UNCHANGED <<vars, hsDone, tok, kuW, kuR, owed, hbOut>>

HandshakeDone == /\ ~hsDone /\ hsDone' = TRUE
                 /\ UNCHANGED <<vars, tok, kuW, kuR, owed, hbOut, phaFin, certRec>>

\* ---- control messages that are malformed, unsolicited or not permitted by the negotiated mode
\* alert descriptions: 10 unexpected_message, 47 illegal_parameter, 50 decode_error, 51 decrypt_error,
\* 42 bad_certificate, 20 bad_record_mac
SilentDrop == {"hb-heartbleed", "hb-short-padding"}      \* RFC 6520 section 4: discard silently
BadAlerts(kind) ==
  CASE kind = "ku-unknown-type"   -> {47, 50}
    [] kind = "hb-not-allowed"    -> {10}
    [] kind = "ccs-after-hs13"    -> {10}
    [] kind = "nst-to-server13"   -> {10}
    [] kind = "cert-unsolicited13" -> {10, 47}
    [] kind = "pha-bad-cv"        -> {51, 47}
    [] kind = "pha-bad-fin"       -> {51}
    [] kind = "pha-ctx-reuse"     -> {47, 10}
    \* a request the client answered with an empty Certificate is answered, too: its context is used up
    [] kind = "pha-ctx-reuse-declined" -> {47, 10}
    [] kind = "ku-in-tls12"       -> {10}
    [] kind = "hreq13"            -> {10}
    [] OTHER -> {}
\* o = [fatal, closed, alert, echoed, alive, recorded]
BadControl(kind, o) ==
  /\ IF kind \in SilentDrop
     THEN ~o.fatal /\ ~o.closed /\ ~o.echoed /\ o.alive         \* nothing echoed, connection unaffected
     ELSE /\ o.fatal /\ o.closed /\ o.alert \in BadAlerts(kind)  \* BadControlIsFatal
          /\ ~o.recorded                                         \* no client identity recorded
  /\ UNCHANGED allvars

\* nothing is owed when both sides are idle and everything sent was delivered
Quiescent == \A d \in Dir : /\ ~kuW[d] /\ ~kuR[d]
                            /\ (Len(acc[d]) = Len(sent[d]) => (~owed[Other(d)] /\ hbOut[d] = {}))
=============================================================================
