---------------------------- MODULE RSABlinding ----------------------------
(***************************************************************************)
(* Statement-level model of Python_RSAKey._rawPrivateKeyOp                 *)
(* (tlslite/utils/python_rsakey.py), property C18: several threads run the *)
(* private-key operation on ONE key object; the (blinder, unblinder) pair  *)
(* is shared state that is read and squared under self._lock.              *)
(* Toy modulus; the arithmetic is the real one (mod n).                    *)
(*                                                                         *)
(*   ResultCorrect  : every finished operation returned m^d mod n          *)
(*   PairConsistent : the pair a thread took for its operation satisfies   *)
(*                    blinder * unblinder^e = 1 (mod n); so does the       *)
(*                    shared pair whenever the lock is free                *)
(* UseLock = FALSE is the negative control: TLC must violate them.         *)
(***************************************************************************)
EXTENDS Integers, FiniteSets, TLC

CONSTANTS Threads, MaxOps, UseLock,
          P, Q, E, D,     \* toy key: n = P*Q, E*D = 1 mod lcm(P-1, Q-1)
          Msgs,           \* messages the threads may present
          Seeds           \* values getRandomNumber(2, n) may return (units mod n)

Nn == P * Q

RECURSIVE PowMod(_, _, _)
PowMod(a, k, n) == IF k = 0 THEN 1 % n ELSE (a * PowMod(a, k - 1, n)) % n
InvMod(a, n) == CHOOSE x \in 1..(n-1) : (a * x) % n = 1

ASSUME /\ \A m \in Msgs : m \in 0..(Nn-1) /\ PowMod(PowMod(m, D, Nn), E, Nn) = m
       /\ \A u \in Seeds : \E x \in 1..(Nn-1) : (u * x) % Nn = 1

Consistent(b, u) == (b * PowMod(u, E, Nn)) % Nn = 1

(* --algorithm RSABlinding {
variables lock = 0, blinder = 0, unblinder = 0;

process (t \in Threads)
variables ops = 0, m = 0, b = 0, ub = 0, msg = 0, c = 0, out = -1, done = FALSE;
{
 loop: while (ops < MaxOps) {
         with (x \in Msgs) { m := x };
         ops := ops + 1; done := FALSE; out := -1;
 acq:    if (UseLock) { await lock = 0; lock := self };      \* with self._lock:
 r1:     if (blinder = 0) {                                  \* if not self.blinder:
 r2:       with (u \in Seeds) { unblinder := u };            \*   self.unblinder = getRandomNumber(2, n)
 r3:       blinder := PowMod(InvMod(unblinder, Nn), E, Nn)   \*   self.blinder = powMod(invMod(unblinder, n), e, n)
         };
 r4:     ub := unblinder;                                    \* unblinder = self.unblinder
 r5:     b := blinder;                                       \* blinder = self.blinder
 r6:     blinder := (b * b) % Nn;                            \* self.blinder = (blinder * blinder) % n
 r7:     unblinder := (ub * ub) % Nn;                        \* self.unblinder = (unblinder * unblinder) % n
 rel:    if (UseLock) { lock := 0 };                         \* (end of with)
 r9:     msg := (m * b) % Nn;                                \* message = (message * blinder) % n
 r10:    c := PowMod(msg, D, Nn);                            \* cipher = self._rawPrivateKeyOpHelper(message)
 r11:    c := (c * ub) % Nn;                                 \* cipher = (cipher * unblinder) % n
 r12:    out := c; done := TRUE                              \* return cipher
       }
}
} *)
\* BEGIN TRANSLATION
VARIABLES pc, lock, blinder, unblinder, ops, m, b, ub, msg, c, out, done

vars == << pc, lock, blinder, unblinder, ops, m, b, ub, msg, c, out, done >>

ProcSet == (Threads)

Init == (* Global variables *)
        /\ lock = 0
        /\ blinder = 0
        /\ unblinder = 0
        (* Process t *)
        /\ ops = [self \in Threads |-> 0]
        /\ m = [self \in Threads |-> 0]
        /\ b = [self \in Threads |-> 0]
        /\ ub = [self \in Threads |-> 0]
        /\ msg = [self \in Threads |-> 0]
        /\ c = [self \in Threads |-> 0]
        /\ out = [self \in Threads |-> -1]
        /\ done = [self \in Threads |-> FALSE]
        /\ pc = [self \in ProcSet |-> "loop"]

loop(self) == /\ pc[self] = "loop"
              /\ IF ops[self] < MaxOps
                    THEN /\ \E x \in Msgs:
                              m' = [m EXCEPT ![self] = x]
                         /\ ops' = [ops EXCEPT ![self] = ops[self] + 1]
                         /\ done' = [done EXCEPT ![self] = FALSE]
                         /\ out' = [out EXCEPT ![self] = -1]
                         /\ pc' = [pc EXCEPT ![self] = "acq"]
                    ELSE /\ pc' = [pc EXCEPT ![self] = "Done"]
                         /\ UNCHANGED << ops, m, out, done >>
              /\ UNCHANGED << lock, blinder, unblinder, b, ub, msg, c >>

acq(self) == /\ pc[self] = "acq"
             /\ IF UseLock
                   THEN /\ lock = 0
                        /\ lock' = self
                   ELSE /\ TRUE
                        /\ lock' = lock
             /\ pc' = [pc EXCEPT ![self] = "r1"]
             /\ UNCHANGED << blinder, unblinder, ops, m, b, ub, msg, c, out, 
                             done >>

r1(self) == /\ pc[self] = "r1"
            /\ IF blinder = 0
                  THEN /\ pc' = [pc EXCEPT ![self] = "r2"]
                  ELSE /\ pc' = [pc EXCEPT ![self] = "r4"]
            /\ UNCHANGED << lock, blinder, unblinder, ops, m, b, ub, msg, c, 
                            out, done >>

r2(self) == /\ pc[self] = "r2"
            /\ \E u \in Seeds:
                 unblinder' = u
            /\ pc' = [pc EXCEPT ![self] = "r3"]
            /\ UNCHANGED << lock, blinder, ops, m, b, ub, msg, c, out, done >>

r3(self) == /\ pc[self] = "r3"
            /\ blinder' = PowMod(InvMod(unblinder, Nn), E, Nn)
            /\ pc' = [pc EXCEPT ![self] = "r4"]
            /\ UNCHANGED << lock, unblinder, ops, m, b, ub, msg, c, out, done >>

r4(self) == /\ pc[self] = "r4"
            /\ ub' = [ub EXCEPT ![self] = unblinder]
            /\ pc' = [pc EXCEPT ![self] = "r5"]
            /\ UNCHANGED << lock, blinder, unblinder, ops, m, b, msg, c, out, 
                            done >>

r5(self) == /\ pc[self] = "r5"
            /\ b' = [b EXCEPT ![self] = blinder]
            /\ pc' = [pc EXCEPT ![self] = "r6"]
            /\ UNCHANGED << lock, blinder, unblinder, ops, m, ub, msg, c, out, 
                            done >>

r6(self) == /\ pc[self] = "r6"
            /\ blinder' = (b[self] * b[self]) % Nn
            /\ pc' = [pc EXCEPT ![self] = "r7"]
            /\ UNCHANGED << lock, unblinder, ops, m, b, ub, msg, c, out, done >>

r7(self) == /\ pc[self] = "r7"
            /\ unblinder' = (ub[self] * ub[self]) % Nn
            /\ pc' = [pc EXCEPT ![self] = "rel"]
            /\ UNCHANGED << lock, blinder, ops, m, b, ub, msg, c, out, done >>

rel(self) == /\ pc[self] = "rel"
             /\ IF UseLock
                   THEN /\ lock' = 0
                   ELSE /\ TRUE
                        /\ lock' = lock
             /\ pc' = [pc EXCEPT ![self] = "r9"]
             /\ UNCHANGED << blinder, unblinder, ops, m, b, ub, msg, c, out, 
                             done >>

r9(self) == /\ pc[self] = "r9"
            /\ msg' = [msg EXCEPT ![self] = (m[self] * b[self]) % Nn]
            /\ pc' = [pc EXCEPT ![self] = "r10"]
            /\ UNCHANGED << lock, blinder, unblinder, ops, m, b, ub, c, out, 
                            done >>

r10(self) == /\ pc[self] = "r10"
             /\ c' = [c EXCEPT ![self] = PowMod(msg[self], D, Nn)]
             /\ pc' = [pc EXCEPT ![self] = "r11"]
             /\ UNCHANGED << lock, blinder, unblinder, ops, m, b, ub, msg, out, 
                             done >>

r11(self) == /\ pc[self] = "r11"
             /\ c' = [c EXCEPT ![self] = (c[self] * ub[self]) % Nn]
             /\ pc' = [pc EXCEPT ![self] = "r12"]
             /\ UNCHANGED << lock, blinder, unblinder, ops, m, b, ub, msg, out, 
                             done >>

r12(self) == /\ pc[self] = "r12"
             /\ out' = [out EXCEPT ![self] = c[self]]
             /\ done' = [done EXCEPT ![self] = TRUE]
             /\ pc' = [pc EXCEPT ![self] = "loop"]
             /\ UNCHANGED << lock, blinder, unblinder, ops, m, b, ub, msg, c >>

t(self) == loop(self) \/ acq(self) \/ r1(self) \/ r2(self) \/ r3(self)
              \/ r4(self) \/ r5(self) \/ r6(self) \/ r7(self) \/ rel(self)
              \/ r9(self) \/ r10(self) \/ r11(self) \/ r12(self)

(* Allow infinite stuttering to prevent deadlock on termination. *)
Terminating == /\ \A self \in ProcSet: pc[self] = "Done"
               /\ UNCHANGED vars

Next == (\E self \in Threads: t(self))
           \/ Terminating

Spec == Init /\ [][Next]_vars

Termination == <>(\A self \in ProcSet: pc[self] = "Done")

\* END TRANSLATION

ResultCorrect == \A x \in Threads : done[x] => out[x] = PowMod(m[x], D, Nn)

PairConsistent ==
  /\ \A x \in Threads : pc[x] \in {"r9", "r10", "r11", "r12"} => Consistent(b[x], ub[x])
  /\ (UseLock /\ lock = 0) => (blinder = 0 \/ Consistent(blinder, unblinder))

LockDiscipline == \A x \in Threads :
  pc[x] \in {"r1", "r2", "r3", "r4", "r5", "r6", "r7", "rel"} => lock = x

SymThreads == Permutations(Threads)
=============================================================================
