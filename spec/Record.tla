------------------------------- MODULE Record -------------------------------
(***************************************************************************)
(* Record layer and data plane of one tlslite-ng connection, both          *)
(* directions, whole connection lifetime (plaintext epoch, key changes,    *)
(* application data, alerts), with an on-path adversary.                   *)
(*                                                                         *)
(* Bound to the code by spec/trace/RecordTrace.tla (events recorded at     *)
(* RecordLayer.sendRecord / recvRecord, write/read calls, key changes) and *)
(* by replaying the adversary scripts TLC enumerates (C02).                *)
(*                                                                         *)
(* Byte strings are abstracted to lengths / offsets: application data of   *)
(* direction d is one stream, a record carries the half-open interval      *)
(* [off, off+plen) of it.  The harness uses a position-dependent stream so *)
(* that offsets are observable as byte values.                             *)
(*                                                                         *)
(* Code sites: TLSRecordLayer._sendMsg (fragmentation, 1/n-1 split),       *)
(* RecordLayer.sendRecord / recvRecord, changeWriteState/changeReadState,  *)
(* calcTLS1_3KeyUpdate_*, readAsync (buffer slicing), _sendError/_shutdown.*)
(***************************************************************************)
EXTENDS Naturals, Sequences, FiniteSets, TLC
CONSTANT MaxAtk   \* bound on adversary operations (model checking)

Dir == {"c2s", "s2c"}
Other(d) == IF d = "c2s" THEN "s2c" ELSE "c2s"
Snd(d) == IF d = "c2s" THEN "c" ELSE "s"
Rcv(d) == IF d = "c2s" THEN "s" ELSE "c"
CCS == 20  ALERT == 21  HS == 22  APP == 23  HB == 24
CType == {CCS, ALERT, HS, APP, HB}
MaxPlain == 16384

Min(a, b) == IF a < b THEN a ELSE b

VARIABLES
  cfg,     \* [split: BOOLEAN, tls13: BOOLEAN, lim: [Dir -> Nat], neg: [Dir -> Nat]] - constant per behaviour
         \*   lim = plaintext limit in force (min of user-set recordSize and negotiated limit)
         \*   neg = negotiated limit alone (bounds TLS 1.3 inner plaintext incl. padding)
  wr,      \* [Dir -> [epoch: Nat, seq: Nat]]   sender's write state of d
  rd,      \* [Dir -> [epoch: Nat, seq: Nat]]   receiver's read state of d
  sent,    \* [Dir -> Seq([epoch, seq, ct, plen, off])] records the sender protected
  wire,    \* [Dir -> Seq([k, idx, dir])]  items in flight; k = "gen" or an adversarial kind
  acc,     \* [Dir -> Seq([ct, plen, off, src])]  records the receiver accepted
  appW,    \* [Dir -> Nat] application bytes handed to write()
  appR,    \* [Dir -> Nat] application bytes returned by read()
  rbuf,    \* [Dir -> Nat] bytes accepted but not yet returned (TLSRecordLayer._readBuffer)
  pend,    \* [Dir -> [active: BOOLEAN, rem: Nat, first: BOOLEAN]]  write() in progress
  dead,    \* [Dir -> BOOLEAN]  receiver of d has failed fatally (connection closed there)
  natk     \* adversary operations used so far

vars == <<cfg, wr, rd, sent, wire, acc, appW, appR, rbuf, pend, dead, natk>>

NoPend == [active |-> FALSE, rem |-> 0, first |-> FALSE]

\* is record r of direction d counted by sequence numbers?  TLS 1.3 sends CCS
\* unprotected at any time; it consumes no sequence number in either state.
Counted(r) == ~(cfg.tls13 /\ r.ct = CCS)

InitWith(c) ==
  /\ cfg = c
  /\ wr = [d \in Dir |-> [epoch |-> 0, seq |-> 0]]
  /\ rd = [d \in Dir |-> [epoch |-> 0, seq |-> 0]]
  /\ sent = [d \in Dir |-> <<>>]
  /\ wire = [d \in Dir |-> <<>>]
  /\ acc = [d \in Dir |-> <<>>]
  /\ appW = [d \in Dir |-> 0]
  /\ appR = [d \in Dir |-> 0]
  /\ rbuf = [d \in Dir |-> 0]
  /\ pend = [d \in Dir |-> NoPend]
  /\ dead = [d \in Dir |-> FALSE]
  /\ natk = 0

(***************************************************************************)
(* Sender side                                                             *)
(***************************************************************************)
\* the sender of direction d is the receiver of Other(d): it is alive unless
\* that receiver failed
SenderAlive(d) == ~dead[Other(d)]

BeginWrite(d, n) ==
  /\ SenderAlive(d) /\ ~pend[d].active
  /\ pend' = [pend EXCEPT ![d] = [active |-> TRUE, rem |-> n, first |-> TRUE]]
  /\ appW' = [appW EXCEPT ![d] = @ + n]
  /\ UNCHANGED <<cfg, wr, rd, sent, wire, acc, appR, rbuf, dead, natk>>

\* what _sendMsg does for the next fragment of an application write
CodeFrag(d) ==
  IF cfg.split /\ pend[d].first /\ pend[d].rem > 0 THEN 1
  ELSE Min(pend[d].rem, cfg.lim[d])

\* The property-level rule: an application record carries k <= limit bytes
\* of the pending write, in order.  (k = CodeFrag(d) is what the code does;
\* the model checker uses that, trace validation checks the rule and reports
\* the refinement separately.)
SendApp(d, k) ==
  /\ SenderAlive(d) /\ pend[d].active
  /\ k <= pend[d].rem /\ k <= cfg.lim[d]
  /\ LET off == appW[d] - pend[d].rem
         r == [epoch |-> wr[d].epoch, seq |-> wr[d].seq, ct |-> APP, plen |-> k, off |-> off]
     IN /\ sent' = [sent EXCEPT ![d] = Append(@, r)]
        /\ wire' = [wire EXCEPT ![d] = Append(@, [k |-> "gen", idx |-> Len(sent[d]) + 1, dir |-> d])]
  /\ wr' = [wr EXCEPT ![d].seq = @ + 1]
  /\ pend' = [pend EXCEPT ![d] = [active |-> TRUE, rem |-> @.rem - k, first |-> FALSE]]
  /\ UNCHANGED <<cfg, rd, acc, appW, appR, rbuf, dead, natk>>

EndWrite(d) ==
  /\ pend[d].active /\ pend[d].rem = 0
  /\ pend' = [pend EXCEPT ![d] = NoPend]
  /\ UNCHANGED <<cfg, wr, rd, sent, wire, acc, appW, appR, rbuf, dead, natk>>

\* a non-application record (handshake, alert, CCS, heartbeat)
SendCtl(d, ct, k) ==
  /\ ct # APP /\ k <= MaxPlain
  /\ LET r == [epoch |-> wr[d].epoch, seq |-> wr[d].seq, ct |-> ct, plen |-> k, off |-> 0]
     IN /\ sent' = [sent EXCEPT ![d] = Append(@, r)]
        /\ wire' = [wire EXCEPT ![d] = Append(@, [k |-> "gen", idx |-> Len(sent[d]) + 1, dir |-> d])]
        /\ wr' = [wr EXCEPT ![d].seq = IF Counted(r) THEN @ + 1 ELSE @]
  /\ UNCHANGED <<cfg, rd, acc, appW, appR, rbuf, pend, dead, natk>>

KeyChangeW(d) ==
  /\ wr' = [wr EXCEPT ![d] = [epoch |-> @.epoch + 1, seq |-> 0]]
  /\ UNCHANGED <<cfg, rd, sent, wire, acc, appW, appR, rbuf, pend, dead, natk>>

KeyChangeR(d) ==
  /\ rd' = [rd EXCEPT ![d] = [epoch |-> @.epoch + 1, seq |-> 0]]
  /\ UNCHANGED <<cfg, wr, sent, wire, acc, appW, appR, rbuf, pend, dead, natk>>

(***************************************************************************)
(* Receiver side: THE acceptance rule of the property (C02)                *)
(***************************************************************************)
Genuine(d, it) == it.k = "gen" /\ it.dir = d

\* it is exactly what the peer protected as its next record in this direction
IsNext(d, it) ==
  /\ Genuine(d, it)
  /\ it.idx = Len(acc[d]) + 1
  \* TLS 1.3 compatibility CCS is unprotected and belongs to no epoch
  /\ Counted(sent[d][it.idx]) => /\ sent[d][it.idx].epoch = rd[d].epoch
                                  /\ sent[d][it.idx].seq = rd[d].seq

\* In the plaintext epoch nothing is authenticated: a record that is
\* byte-identical to a genuine one cannot be told apart; the adversary model
\* (below) only forges in protected epochs, so IsNext is the rule there too.

Accept(d) ==
  /\ wire[d] # <<>> /\ ~dead[d]
  /\ LET it == Head(wire[d])  r == sent[d][it.idx] IN
       /\ IsNext(d, it)
       /\ acc' = [acc EXCEPT ![d] = Append(@, [ct |-> r.ct, plen |-> r.plen, off |-> r.off, src |-> it.idx])]
       /\ rd' = [rd EXCEPT ![d].seq = IF Counted(r) THEN @ + 1 ELSE @]
       /\ rbuf' = [rbuf EXCEPT ![d] = IF r.ct = APP THEN @ + r.plen ELSE @]
  /\ wire' = [wire EXCEPT ![d] = Tail(@)]
  /\ UNCHANGED <<cfg, wr, sent, appW, appR, pend, dead, natk>>

Reject(d) ==
  /\ wire[d] # <<>> /\ ~dead[d]
  /\ ~IsNext(d, Head(wire[d]))
  /\ dead' = [dead EXCEPT ![d] = TRUE]
  /\ wire' = [wire EXCEPT ![d] = Tail(@)]
  /\ UNCHANGED <<cfg, wr, rd, sent, acc, appW, appR, rbuf, pend, natk>>

\* read() returns k bytes from the buffer
Read(d, k) ==
  /\ k <= rbuf[d]
  /\ appR' = [appR EXCEPT ![d] = @ + k]
  /\ rbuf' = [rbuf EXCEPT ![d] = @ - k]
  /\ UNCHANGED <<cfg, wr, rd, sent, wire, acc, appW, pend, dead, natk>>

(***************************************************************************)
(* On-path adversary without keys (C02).  Items it can put on the wire:    *)
(*  flip    - any modification of a genuine record's bytes (header, IV,    *)
(*            ciphertext, MAC/tag): concretised by the harness to every    *)
(*            bit / truncation / extension                                 *)
(*  drop, replay(dup), reorder, reflect (record of the other direction),   *)
(*  xepoch  - a genuine record of this direction from another key epoch    *)
(*            (replayed later)                                             *)
(***************************************************************************)
Protected(d, i) == sent[d][i].epoch > 0

AtkFlipAt(d, i) ==
  /\ i \in 1..Len(wire[d])
  /\ wire[d][i].k = "gen" /\ wire[d][i].dir = d /\ Protected(d, wire[d][i].idx)
  /\ wire' = [wire EXCEPT ![d][i].k = "flip"]
AtkDropAt(d, i) ==
  /\ i \in 1..Len(wire[d])
  /\ Genuine(d, wire[d][i]) /\ Protected(d, wire[d][i].idx)
  /\ wire' = [wire EXCEPT ![d] = SubSeq(@, 1, i-1) \o SubSeq(@, i+1, Len(@))]
AtkDupAt(d, i) ==
  /\ i \in 1..Len(wire[d])
  /\ Genuine(d, wire[d][i]) /\ Protected(d, wire[d][i].idx)
  /\ wire' = [wire EXCEPT ![d] = SubSeq(@, 1, i) \o <<@[i]>> \o SubSeq(@, i+1, Len(@))]
AtkSwapAt(d, i) ==
  /\ i \in 1..(Len(wire[d]) - 1)
  /\ Genuine(d, wire[d][i]) /\ Genuine(d, wire[d][i+1])
  /\ Protected(d, wire[d][i].idx) /\ Protected(d, wire[d][i+1].idx)
  /\ wire' = [wire EXCEPT ![d] = SubSeq(@, 1, i-1) \o <<@[i+1], @[i]>> \o SubSeq(@, i+2, Len(@))]
\* record i of the other direction inserted at wire position p
AtkReflectAt(d, i, p) ==
  /\ i \in 1..Len(sent[Other(d)]) /\ p \in 1..(Len(wire[d]) + 1)
  /\ Protected(Other(d), i)
  /\ wire' = [wire EXCEPT ![d] = SubSeq(@, 1, p-1) \o <<[k |-> "gen", idx |-> i, dir |-> Other(d)]>> \o SubSeq(@, p, Len(@))]
\* replay of an already delivered genuine record (same or earlier epoch) at position p
AtkOldAt(d, i, p) ==
  /\ i \in 1..Len(acc[d]) /\ p \in 1..(Len(wire[d]) + 1)
  /\ Protected(d, i)
  /\ wire' = [wire EXCEPT ![d] = SubSeq(@, 1, p-1) \o <<[k |-> "gen", idx |-> i, dir |-> d]>> \o SubSeq(@, p, Len(@))]

\* a record fabricated without keys (e.g. an unprotected alert) inserted at position p
AtkForgeAt(d, p) ==
  /\ p \in 1..(Len(wire[d]) + 1)
  /\ wire' = [wire EXCEPT ![d] = SubSeq(@, 1, p-1) \o <<[k |-> "forged", idx |-> 0, dir |-> d]>> \o SubSeq(@, p, Len(@))]
\* TLS 1.3: change_cipher_spec records are never protected, so the adversary can always
\* fabricate one (or re-type a protected record as CCS: the receiver cannot tell); kind "ccs"
AtkCCSAt(d, p) ==
  /\ cfg.tls13 /\ p \in 1..(Len(wire[d]) + 1)
  /\ wire' = [wire EXCEPT ![d] = SubSeq(@, 1, p-1) \o <<[k |-> "ccs", idx |-> 0, dir |-> d]>> \o SubSeq(@, p, Len(@))]
\* ... and the record layer hands it upward unauthenticated.  After the handshake the
\* connection must treat it as fatal (during the handshake it is ignored: Handshake.tla).
PassPlainCCSAfterHandshake(d) ==
  /\ wire[d] # <<>> /\ ~dead[d] /\ cfg.tls13 /\ Head(wire[d]).k = "ccs"
  /\ wire' = [wire EXCEPT ![d] = Tail(@)]
  /\ dead' = [dead EXCEPT ![d] = TRUE]
  /\ UNCHANGED <<cfg, wr, rd, sent, acc, appW, appR, rbuf, pend, natk>>

AtkFlip(d) == \E i \in 1..Len(wire[d]) : AtkFlipAt(d, i)
AtkDrop(d) == \E i \in 1..Len(wire[d]) : AtkDropAt(d, i)
AtkDup(d) == \E i \in 1..Len(wire[d]) : AtkDupAt(d, i)
AtkSwap(d) == \E i \in 1..(Len(wire[d]) - 1) : AtkSwapAt(d, i)
AtkReflect(d) == \E i \in 1..Len(sent[Other(d)]) : \E p \in 1..(Len(wire[d]) + 1) : AtkReflectAt(d, i, p)
AtkOld(d) == \E i \in 1..Len(acc[d]) : \E p \in 1..(Len(wire[d]) + 1) : AtkOldAt(d, i, p)

AtkFrame == UNCHANGED <<cfg, wr, rd, sent, acc, appW, appR, rbuf, pend, dead>>
Atk(d) ==
  /\ natk < MaxAtk /\ natk' = natk + 1
  /\ AtkFlip(d) \/ AtkDrop(d) \/ AtkDup(d) \/ AtkSwap(d) \/ AtkReflect(d) \/ AtkOld(d)
  /\ UNCHANGED <<cfg, wr, rd, sent, acc, appW, appR, rbuf, pend, dead>>

(***************************************************************************)
(* Hypothetical presentation (used by trace validation of C02): what the   *)
(* receiver of d must do if the item sequence `items` is presented to it   *)
(* in the current state - "acc" for each genuine-next item, "rej" at the   *)
(* first item that is not, nothing after that.  The harness restores the   *)
(* receiver's state after each such experiment, so the state is unchanged. *)
(***************************************************************************)
RECURSIVE Expect(_, _, _, _, _)
Expect(d, items, n, ep, sq) ==
  IF items = <<>> THEN <<>>
  ELSE LET it == Head(items)
           inr == it.k = "gen" /\ it.dir = d /\ it.idx = n + 1 /\ it.idx <= Len(sent[d])
           ok == /\ inr
                 /\ Counted(sent[d][it.idx]) => (sent[d][it.idx].epoch = ep /\ sent[d][it.idx].seq = sq)
       IN IF ok THEN <<"acc">> \o Expect(d, Tail(items), n + 1, ep,
                                        IF Counted(sent[d][it.idx]) THEN sq + 1 ELSE sq)
          ELSE <<"rej">>

Try(d, items, outs) ==
  /\ ~dead[d]
  /\ outs = Expect(d, items, Len(acc[d]), rd[d].epoch, rd[d].seq)
  /\ UNCHANGED vars

\* alerts a receiver may send when it rejects a record (C02: "fatal integrity/decoding error")
IntegrityAlerts == {20, 21, 22, 50, 10, 47}   \* bad_record_mac, decryption_failed, record_overflow,
                                              \* decode_error, unexpected_message, illegal_parameter
\* C02 RejectIsFatal: what must be observable at the API after a rejection
FatalObserved(d, o) ==
  /\ dead[d]
  /\ o.closed /\ ~o.resumable          \* connection closed, session not resumable
  /\ o.alertLevel = 2 /\ o.alertDesc \in IntegrityAlerts   \* fatal alert was the next thing on the wire
  /\ o.delivered = 0                    \* no data delivered by the failing call
  /\ UNCHANGED vars

(***************************************************************************)
(* Properties                                                              *)
(***************************************************************************)
RECURSIVE SumPlen(_, _)
SumPlen(s, i) == IF i = 0 THEN 0 ELSE (IF s[i].ct = APP THEN s[i].plen ELSE 0) + SumPlen(s, i - 1)
AppBytes(s) == SumPlen(s, Len(s))

\* C02: the receiver has accepted exactly a prefix of what the sender protected
AcceptOnlyGenuineNext ==
  \A d \in Dir : \A i \in 1..Len(acc[d]) :
     /\ acc[d][i].src = i
     /\ acc[d][i].ct = sent[d][i].ct /\ acc[d][i].plen = sent[d][i].plen /\ acc[d][i].off = sent[d][i].off

\* C01: bytes delivered are a prefix of the bytes written: contiguous, once, in order
DeliveredIsPrefix ==
  \A d \in Dir :
     /\ appR[d] + rbuf[d] = AppBytes(acc[d])
     /\ appR[d] + rbuf[d] <= appW[d]
     /\ \A i \in 1..Len(acc[d]) : acc[d][i].ct = APP => acc[d][i].off = SumPlen(acc[d], i - 1)

\* C01: no record carries more plaintext than the limit in force
NoOverLimit ==
  \A d \in Dir : \A i \in 1..Len(sent[d]) :
     sent[d][i].plen <= (IF sent[d][i].ct = APP THEN cfg.lim[d] ELSE MaxPlain)

\* C01: what the sender protected is exactly what was written so far
FragSound == \A d \in Dir : AppBytes(sent[d]) + pend[d].rem = appW[d]

\* C02: a failed receiver accepts nothing more
DeadIsFinal == [][\A d \in Dir : dead[d] => (dead'[d] /\ acc'[d] = acc[d] /\ rbuf'[d] <= rbuf[d])]_vars

SeqMonotone == [][\A d \in Dir : /\ wr'[d].seq \in {wr[d].seq, wr[d].seq + 1, 0}
                                  /\ rd'[d].seq \in {rd[d].seq, rd[d].seq + 1, 0}]_vars

TypeOK ==
  /\ \A d \in Dir : wr[d].seq \in Nat /\ rd[d].seq \in Nat /\ rbuf[d] \in Nat /\ appR[d] <= appW[d]
=============================================================================
