------------------------------ MODULE RecordMC ------------------------------
(* Bounded model-checking configuration of Record.tla: post-handshake data *)
(* plane with TLS 1.3-style key updates and the adversary.                 *)
EXTENDS Record
CONSTANTS F,         \* record size limit in force (both directions)
          MaxBytes,  \* bound on bytes written per direction
          MaxRecs,   \* bound on records per direction
          MaxKU      \* bound on key updates per direction

Cfgs == { c \in { [split |-> s, tls13 |-> t, lim |-> [d \in Dir |-> F], neg |-> [d \in Dir |-> F]] : s \in BOOLEAN, t \in BOOLEAN } : ~(c.split /\ c.tls13) }
\* the two directions are symmetric: the full alphabet runs in c2s, s2c carries a
\* smaller load (enough for reflection and cross-direction interleaving)
CapB(d) == IF d = "c2s" THEN MaxBytes ELSE 1
CapR(d) == IF d = "c2s" THEN MaxRecs ELSE 1

MCInit == \E c \in Cfgs :
  /\ InitWith(c)
\* start after the handshake: epoch 1 on both sides (InitWith gives epoch 0 = plaintext)
MCInit1 == \E c \in Cfgs :
  /\ cfg = c
  /\ wr = [d \in Dir |-> [epoch |-> 1, seq |-> 0]] /\ rd = wr
  /\ sent = [d \in Dir |-> <<>>] /\ wire = sent /\ acc = sent
  /\ appW = [d \in Dir |-> 0] /\ appR = appW /\ rbuf = appW
  /\ pend = [d \in Dir |-> NoPend] /\ dead = [d \in Dir |-> FALSE] /\ natk = 0

\* KeyUpdate: a 5-byte handshake record, then the sender switches its write key;
\* the receiver switches its read key right after accepting that record.
KUWPending(d) == Len(sent[d]) > 0 /\ sent[d][Len(sent[d])].ct = HS /\ sent[d][Len(sent[d])].epoch = wr[d].epoch
KURPending(d) == Len(acc[d]) > 0 /\ acc[d][Len(acc[d])].ct = HS /\ sent[d][Len(acc[d])].epoch = rd[d].epoch

SendKU(d) == cfg.tls13 /\ SenderAlive(d) /\ ~pend[d].active /\ ~KUWPending(d) /\ wr[d].epoch <= MaxKU /\ d = "c2s" /\ SendCtl(d, HS, 5)

MCNext == \E d \in Dir :
  \/ \E n \in 0..(2*F+1) : ~KUWPending(d) /\ appW[d] + n <= CapB(d) /\ BeginWrite(d, n)
  \/ ~KUWPending(d) /\ pend[d].active /\ (pend[d].rem > 0 \/ pend[d].first) /\ SendApp(d, CodeFrag(d))
  \/ EndWrite(d) /\ ~pend[d].first
  \/ SendKU(d)
  \/ KUWPending(d) /\ KeyChangeW(d)
  \/ ~KURPending(d) /\ Accept(d)
  \/ ~KURPending(d) /\ Reject(d)
  \/ KURPending(d) /\ ~dead[d] /\ KeyChangeR(d)
  \/ \E k \in {1, 2*F} : k <= rbuf[d] /\ Read(d, k)
  \/ d = "c2s" /\ Atk(d)

MCSpec == MCInit1 /\ [][MCNext]_vars
Bound == \A d \in Dir : Len(sent[d]) <= CapR(d)
=============================================================================
