----------------------------- MODULE Resumption -----------------------------
(***************************************************************************)
(* Histories of connections between one client and a server deployment:    *)
(* full handshakes, resumption by session ID / TLS<=1.2 ticket / TLS 1.3   *)
(* PSK ticket, clean / fatal / abrupt closes, clock advance, ticket-key     *)
(* rotation, cache flush, ticket tampering, changed ClientHello.  (C13)    *)
(*                                                                         *)
(* The specification states WHEN a stored session may be resumed (rule     *)
(* table DESIGN.md Appendix F.2) and what the resumed connection inherits. *)
(* TLC enumerates all histories of <= MaxEv events per mechanism and emits *)
(* each with the per-connection prediction; the harness replays them with  *)
(* live endpoints under a virtual clock.                                   *)
(***************************************************************************)
EXTENDS Naturals, Sequences, FiniteSets, TLC, Json

CONSTANTS MaxEv,     \* events per history after the initial full connection
          Kinds      \* subset of {"id", "tkt12", "psk13"}

\* "verRaised": the client (and the server) meanwhile enable TLS 1.3 and the client still offers its session of an
\* older protocol version: a session belongs to its version - TLS 1.3 is negotiated with a full handshake
Variants == {"same", "suiteRemoved", "emsDropped", "etmDropped", "sniChanged", "verRaised"}

VARIABLES authd,    \* the client authenticates with a certificate in the first connection only; afterwards it presents none
          kind,     \* resumption mechanism of this history
          sess,     \* the client's stored session (abstract)
          srv,      \* server deployment: [key: Nat (current key generation), kept: SUBSET Nat, cache: BOOLEAN]
          open,     \* a connection is currently open (must be closed before the next connect)
          hist,     \* events so far, each with the specification's prediction
          done
vars == <<authd, kind, sess, srv, open, hist, done>>

NoSess == [exists |-> FALSE, resumable |-> FALSE, expired |-> FALSE, key |-> 0, incache |-> FALSE,
           tampered |-> FALSE, ems |-> TRUE, etm |-> TRUE, cid |-> "none"]

\* the rules --------------------------------------------------------------
Provenance == IF kind = "id" THEN sess.incache /\ srv.cache /\ ~sess.tampered
              ELSE sess.key \in srv.kept /\ ~sess.tampered
EligibleBase == sess.exists /\ sess.resumable /\ ~sess.expired /\ Provenance
Consistent(v) == /\ v # "suiteRemoved"
                 /\ (v = "emsDropped" => ~sess.ems)
                 /\ (v = "etmDropped" => (~sess.etm \/ kind = "psk13"))
                 /\ v # "sniChanged"
\* prediction for a connect with ClientHello variant v
Predict(v) ==
  IF v = "verRaised" THEN "full-end"                             \* full handshake, must complete; the history ends
  ELSE IF ~sess.exists THEN "full"
  ELSE IF ~Consistent(v) THEN "full-or-abort"                    \* inconsistent ClientHello: never resumed
  \* RFC 7627 5.3: the original session did not use EMS but the new ClientHello offers it:
  \* the server MUST NOT resume and MUST continue with a full handshake
  ELSE IF ~sess.ems /\ v # "emsDropped" /\ kind # "psk13" THEN "full"
  ELSE IF EligibleBase THEN "resume"                             \* may resume (tlslite-ng does)
  ELSE "full"                                                    \* must fall back cleanly: full handshake completes

Init == /\ kind \in Kinds /\ authd \in BOOLEAN
        /\ sess = NoSess /\ srv = [key |-> 1, kept |-> {1}, cache |-> TRUE]
        /\ open = FALSE /\ hist = <<>> /\ done = FALSE

\* cid: the client identity the server must attribute to the connection if it completes ("-" for other events)
Ev(name, arg, pred) == [e |-> name, arg |-> arg, pred |-> pred, cid |-> "-"]
EvC(arg, pred, cid) == [e |-> "connect", arg |-> arg, pred |-> pred, cid |-> cid]
\* identity proven in THIS handshake: the client certificate is presented in the first connection only
NoConnectYet == \A i \in 1..Len(hist) : hist[i].e # "connect"
Presented == IF NoConnectYet /\ authd THEN "A" ELSE "none"
Len1 == Len(hist) < MaxEv + 1

\* what the session looks like after a full handshake with variant v
Fresh(v) == [exists |-> TRUE, resumable |-> TRUE, expired |-> FALSE, key |-> srv.key, incache |-> TRUE,
             tampered |-> FALSE, ems |-> (v # "emsDropped"), etm |-> (v # "etmDropped"), cid |-> Presented]

Connect(v) ==
  /\ ~open /\ ~done /\ Len1
  /\ (hist = <<>> => v = "same")                      \* the first connection is an ordinary full handshake
  /\ (v \in {"emsDropped", "etmDropped"} => kind # "psk13" \/ v = "etmDropped")
  /\ (v = "verRaised" => kind # "psk13" /\ hist # <<>>)
  /\ LET p == Predict(v) IN
       \* a resumed connection carries the original's authenticated identity; any full handshake only what was
       \* proven in it - in particular NOT the identity named by a ticket that was declined
       /\ hist' = Append(hist, EvC(v, p, IF p = "resume" THEN sess.cid ELSE Presented))
       /\ IF p \in {"full-or-abort", "full-end"}
          THEN done' = TRUE /\ UNCHANGED <<sess, open>>        \* outcome not determined: history ends here
          ELSE /\ done' = FALSE /\ open' = TRUE
               /\ sess' = IF p = "resume"
                          THEN (IF kind = "psk13" THEN [sess EXCEPT !.key = srv.key, !.expired = FALSE] ELSE sess)
                          ELSE Fresh(v)
  /\ UNCHANGED <<authd, kind, srv>>

Close(how) ==          \* how \in {"clean", "fatal", "abrupt"}
  /\ open /\ ~done /\ Len1
  /\ hist' = Append(hist, Ev("close", how, "-"))
  /\ open' = FALSE
  /\ sess' = [sess EXCEPT !.resumable = (@ /\ how = "clean")]
  /\ UNCHANGED <<authd, kind, srv, done>>

\* the server's clock passes the lifetime of the ticket / cache entry (the client's own clock is
\* behind, so it still offers the session); "both": both clocks advance
Expire(who) ==
  /\ ~open /\ ~done /\ Len1 /\ sess.exists /\ ~sess.expired
  /\ hist' = Append(hist, Ev("expire", who, "-"))
  /\ sess' = [sess EXCEPT !.expired = TRUE]
  /\ UNCHANGED <<authd, kind, srv, open, done>>

RotateKey(keepOld) ==
  /\ ~open /\ ~done /\ Len1 /\ kind # "id" /\ srv.key < 3
  /\ hist' = Append(hist, Ev("rotate", IF keepOld THEN "keep" ELSE "drop", "-"))
  /\ srv' = [srv EXCEPT !.key = @ + 1, !.kept = IF keepOld THEN @ \cup {srv.key + 1} ELSE {srv.key + 1}]
  /\ UNCHANGED <<authd, kind, sess, open, done>>

FlushCache ==
  /\ ~open /\ ~done /\ Len1 /\ kind = "id" /\ sess.exists /\ sess.incache
  /\ hist' = Append(hist, Ev("flush", "-", "-"))
  /\ sess' = [sess EXCEPT !.incache = FALSE]
  /\ UNCHANGED <<authd, kind, srv, open, done>>

\* the cache overflows: maxEntries other sessions are stored, the oldest entries (ours among them) are evicted
Evict ==
  /\ ~open /\ ~done /\ Len1 /\ kind = "id" /\ sess.exists /\ sess.incache
  /\ hist' = Append(hist, Ev("evict", "-", "-"))
  /\ sess' = [sess EXCEPT !.incache = FALSE]
  /\ UNCHANGED <<authd, kind, srv, open, done>>

Tamper ==
  /\ ~open /\ ~done /\ Len1 /\ sess.exists /\ ~sess.tampered
  /\ hist' = Append(hist, Ev("tamper", "-", "-"))
  /\ sess' = [sess EXCEPT !.tampered = TRUE]
  /\ UNCHANGED <<authd, kind, srv, open, done>>

Next == \/ \E v \in Variants : Connect(v)
        \/ \E h \in {"clean", "fatal", "abrupt"} : Close(h)
        \/ \E w \in {"server", "both"} : Expire(w)
        \/ \E k \in BOOLEAN : RotateKey(k)
        \/ FlushCache \/ Evict \/ Tamper
Spec == Init /\ [][Next]_vars

(***************************************************************************)
(* Properties of the rules (checked on the model)                          *)
(***************************************************************************)
LastConnect == IF hist # <<>> /\ hist[Len(hist)].e = "connect" THEN hist[Len(hist)] ELSE [e |-> "-", arg |-> "-", pred |-> "-", cid |-> "-"]
\* resumed only from a session that completed, was not invalidated, not expired, right provenance
ResumeOnlyIfEligible ==
  [][\A v \in Variants : (Connect(v) /\ Predict(v) = "resume") =>
        (sess.exists /\ sess.resumable /\ ~sess.expired /\ ~sess.tampered /\ Consistent(v))]_vars
\* forged / altered / expired / foreign / unknown never resumes and never breaks the connection
IneligibleFallsBack ==
  [][\A v \in Variants : (Connect(v) /\ sess.exists /\ ~EligibleBase /\ Consistent(v)) => Predict(v) \in {"full", "full-end"}]_vars
\* the resumed connection keeps the original's EMS / EtM properties
ResumedInherits ==
  [][\A v \in Variants : (Connect(v) /\ Predict(v) = "resume") =>
        (sess'.ems = sess.ems /\ sess'.etm = sess.etm /\ sess'.cid = sess.cid)]_vars
\* an identity is attributed only by the handshake that proved it or by a resumption of that very session
IdentityFromProofOrResumption ==
  [][\A v \in Variants : (Connect(v) /\ Predict(v) \notin {"resume", "full-or-abort", "full-end"}) => sess'.cid = Presented]_vars

\* a history is emitted when it cannot be extended further or ends in a connect
Emit == (hist # <<>> /\ hist[Len(hist)].e = "connect" /\ Len(hist) >= 2) =>
           PrintT(ToJson([kind |-> kind, auth |-> authd, hist |-> hist]))
=============================================================================
