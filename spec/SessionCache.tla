---------------------------- MODULE SessionCache ----------------------------
(***************************************************************************)
(* Statement-level model of tlslite/sessioncache.py (property C18).        *)
(* One PlusCal label per source line of __getitem__, __setitem__, _purge;  *)
(* the lock is an explicit variable, time.time() an arbitrary monotone     *)
(* environment variable, Python exceptions escaping from inside the class  *)
(* (KeyError out of `del`, TypeError on a (None, None) slot) an error flag.*)
(* Sessions are tokens; the owner of a session may clear its resumable     *)
(* flag at any time (environment step).                                    *)
(*                                                                         *)
(* Ghost state: `ins` = abstract reference (CacheRef.tla), updated inside  *)
(* the critical section of __setitem__; `good`/`sound` record, at the      *)
(* statement that determines the result of a lookup, whether the result    *)
(* is what the abstract reference allows.                                  *)
(*                                                                         *)
(* UseLock = FALSE is the negative control (acquire/release are no-ops):   *)
(* TLC must then violate the result invariants.                            *)
(* AllowDup = FALSE restricts __setitem__ to ids not stored before; the    *)
(* code (and hence this model) mishandles a repeated id - that defect is   *)
(* derived on the real class by the sequential clause of the check.        *)
(***************************************************************************)
EXTENDS Integers, Sequences, FiniteSets, TLC, CacheRef

CONSTANTS Threads,   \* worker thread ids (positive integers)
          Ids,       \* session ids
          N,         \* maxEntries (length of the circular list)
          MaxAge,    \* maxAge
          MaxClock,  \* the clock runs 0..MaxClock
          MaxOps,    \* operations per thread
          MaxInv,    \* how many sessions the environment may invalidate
          UseLock,   \* FALSE = negative control
          AllowDup   \* TRUE = the same id may be stored twice

NoneE == [id |-> "None", ts |-> -1]     \* the (None, None) list slot
NoId == "None"

(* --algorithm SessionCache {
variables
  lock = 0,                              \* 0 = free, else holder
  dict = [i \in Ids |-> 0],              \* entriesDict: id -> session token, 0 = absent
  list = [k \in 0..(N-1) |-> NoneE],     \* entriesList
  first = 0, last = 0,                   \* firstIndex, lastIndex
  clock = 0,                             \* time.time()
  nextS = 1,                             \* next fresh session token
  invalid = {},                          \* tokens with valid() = False
  err = "none",                          \* internal error flag
  ins = << >>,                           \* ghost: abstract reference
  used = {};                             \* ghost: ids chosen for a store so far

define {
  Live == { i \in Ids : dict[i] # 0 }
  Window == IF last >= first THEN first..(last-1)
            ELSE (first..(N-1)) \cup (0..(last-1))
}

process (env = 0)
{
 e0: while (TRUE) {
       either { await clock < MaxClock; clock := clock + 1 }
       or { with (x \in (1..(nextS-1)) \ invalid) {
              await Cardinality(invalid) < MaxInv;
              invalid := invalid \cup {x} } }
     }
}

process (t \in Threads)
variables ops = 0, op = "none", id = NoId, s = 0, index = 0, now = 0,
          session = 0, res = "none", rs = 0, good = TRUE, sound = TRUE;
{
 loop: while (ops < MaxOps) {
         either { with (i \in Ids) { op := "get"; id := i } }
         or { with (i \in IF AllowDup THEN Ids ELSE Ids \ used) {
                op := "set"; id := i; s := nextS; nextS := nextS + 1;
                used := used \cup {i} } };
         ops := ops + 1; res := "none"; rs := 0;
 acq:    if (UseLock) { await lock = 0; lock := self };      \* self.lock.acquire()
 body:   if (op = "get") {
           \* ---- _purge()
 p0:       now := clock;                                     \* currentTime = time.time()
 p1:       index := first;                                   \* index = self.firstIndex
 p2:       while (index # last) {                            \* while index != self.lastIndex
 p3:         if (list[index] = NoneE) {                      \* currentTime - None -> TypeError
               err := "TypeError_purge"; res := "err"; goto rel
             } else if (now - list[index].ts > MaxAge) {     \* if currentTime - ts > self.maxAge
 p4:           if (dict[list[index].id] = 0) {               \* del self.entriesDict[id]
                 err := "KeyError_purge"; res := "err"; goto rel
               } else { dict[list[index].id] := 0 };
 p5:           index := (index + 1) % N                      \* index = (index+1) % len
             } else { goto p6 }                              \* break
           };
 p6:       first := index;                                   \* self.firstIndex = index
           \* ---- back in __getitem__
 g1:       if (dict[id] = 0) {                               \* session = self.entriesDict[id]
             res := "miss";                                  \*   KeyError: the documented miss
             good := good /\ GetOK(ins, invalid, id, now, N, MaxAge, "miss", 0);
             goto rel
           } else { session := dict[id] };
 g2:       if (session \notin invalid) {                     \* if session.valid(): return session
             res := "hit"; rs := session;
             good := good /\ GetOK(ins, invalid, id, now, N, MaxAge, "hit", session);
             sound := sound /\ HitSound(ins, invalid, id, now, MaxAge, session)
           } else {                                          \* else: raise KeyError()
             res := "miss";
             good := good /\ GetOK(ins, invalid, id, now, N, MaxAge, "miss", 0)
           }
         } else {
 s1:       dict[id] := s;                                    \* self.entriesDict[id] = session
 s2:       list[last] := [id |-> id, ts |-> clock];          \* self.entriesList[last] = (id, time.time())
           ins := RefSet(ins, id, s, clock);
 s3:       last := (last + 1) % N;                           \* self.lastIndex = (last+1) % len
 s4:       if (last = first) {                               \* if self.lastIndex == self.firstIndex
 s5:         if (list[first] = NoneE \/ dict[list[first].id] = 0) {   \* del self.entriesDict[list[first][0]]
               err := "KeyError_set"; res := "err"; goto rel
             } else { dict[list[first].id] := 0 };
 s6:         first := (first + 1) % N                        \* self.firstIndex = (first+1) % len
           };
 s7:       res := "ok"
         };
 rel:    if (UseLock) { lock := 0 }                          \* finally: self.lock.release()
       }
}
} *)
\* BEGIN TRANSLATION
VARIABLES pc, lock, dict, list, first, last, clock, nextS, invalid, err, ins, 
          used

(* define statement *)
Live == { i \in Ids : dict[i] # 0 }
Window == IF last >= first THEN first..(last-1)
          ELSE (first..(N-1)) \cup (0..(last-1))

VARIABLES ops, op, id, s, index, now, session, res, rs, good, sound

vars == << pc, lock, dict, list, first, last, clock, nextS, invalid, err, ins, 
           used, ops, op, id, s, index, now, session, res, rs, good, sound >>

ProcSet == {0} \cup (Threads)

Init == (* Global variables *)
        /\ lock = 0
        /\ dict = [i \in Ids |-> 0]
        /\ list = [k \in 0..(N-1) |-> NoneE]
        /\ first = 0
        /\ last = 0
        /\ clock = 0
        /\ nextS = 1
        /\ invalid = {}
        /\ err = "none"
        /\ ins = << >>
        /\ used = {}
        (* Process t *)
        /\ ops = [self \in Threads |-> 0]
        /\ op = [self \in Threads |-> "none"]
        /\ id = [self \in Threads |-> NoId]
        /\ s = [self \in Threads |-> 0]
        /\ index = [self \in Threads |-> 0]
        /\ now = [self \in Threads |-> 0]
        /\ session = [self \in Threads |-> 0]
        /\ res = [self \in Threads |-> "none"]
        /\ rs = [self \in Threads |-> 0]
        /\ good = [self \in Threads |-> TRUE]
        /\ sound = [self \in Threads |-> TRUE]
        /\ pc = [self \in ProcSet |-> CASE self = 0 -> "e0"
                                        [] self \in Threads -> "loop"]

e0 == /\ pc[0] = "e0"
      /\ \/ /\ clock < MaxClock
            /\ clock' = clock + 1
            /\ UNCHANGED invalid
         \/ /\ \E x \in (1..(nextS-1)) \ invalid:
                 /\ Cardinality(invalid) < MaxInv
                 /\ invalid' = (invalid \cup {x})
            /\ clock' = clock
      /\ pc' = [pc EXCEPT ![0] = "e0"]
      /\ UNCHANGED << lock, dict, list, first, last, nextS, err, ins, used, 
                      ops, op, id, s, index, now, session, res, rs, good, 
                      sound >>

env == e0

loop(self) == /\ pc[self] = "loop"
              /\ IF ops[self] < MaxOps
                    THEN /\ \/ /\ \E i \in Ids:
                                    /\ op' = [op EXCEPT ![self] = "get"]
                                    /\ id' = [id EXCEPT ![self] = i]
                               /\ UNCHANGED <<nextS, used, s>>
                            \/ /\ \E i \in IF AllowDup THEN Ids ELSE Ids \ used:
                                    /\ op' = [op EXCEPT ![self] = "set"]
                                    /\ id' = [id EXCEPT ![self] = i]
                                    /\ s' = [s EXCEPT ![self] = nextS]
                                    /\ nextS' = nextS + 1
                                    /\ used' = (used \cup {i})
                         /\ ops' = [ops EXCEPT ![self] = ops[self] + 1]
                         /\ res' = [res EXCEPT ![self] = "none"]
                         /\ rs' = [rs EXCEPT ![self] = 0]
                         /\ pc' = [pc EXCEPT ![self] = "acq"]
                    ELSE /\ pc' = [pc EXCEPT ![self] = "Done"]
                         /\ UNCHANGED << nextS, used, ops, op, id, s, res, rs >>
              /\ UNCHANGED << lock, dict, list, first, last, clock, invalid, 
                              err, ins, index, now, session, good, sound >>

acq(self) == /\ pc[self] = "acq"
             /\ IF UseLock
                   THEN /\ lock = 0
                        /\ lock' = self
                   ELSE /\ TRUE
                        /\ lock' = lock
             /\ pc' = [pc EXCEPT ![self] = "body"]
             /\ UNCHANGED << dict, list, first, last, clock, nextS, invalid, 
                             err, ins, used, ops, op, id, s, index, now, 
                             session, res, rs, good, sound >>

body(self) == /\ pc[self] = "body"
              /\ IF op[self] = "get"
                    THEN /\ pc' = [pc EXCEPT ![self] = "p0"]
                    ELSE /\ pc' = [pc EXCEPT ![self] = "s1"]
              /\ UNCHANGED << lock, dict, list, first, last, clock, nextS, 
                              invalid, err, ins, used, ops, op, id, s, index, 
                              now, session, res, rs, good, sound >>

p0(self) == /\ pc[self] = "p0"
            /\ now' = [now EXCEPT ![self] = clock]
            /\ pc' = [pc EXCEPT ![self] = "p1"]
            /\ UNCHANGED << lock, dict, list, first, last, clock, nextS, 
                            invalid, err, ins, used, ops, op, id, s, index, 
                            session, res, rs, good, sound >>

p1(self) == /\ pc[self] = "p1"
            /\ index' = [index EXCEPT ![self] = first]
            /\ pc' = [pc EXCEPT ![self] = "p2"]
            /\ UNCHANGED << lock, dict, list, first, last, clock, nextS, 
                            invalid, err, ins, used, ops, op, id, s, now, 
                            session, res, rs, good, sound >>

p2(self) == /\ pc[self] = "p2"
            /\ IF index[self] # last
                  THEN /\ pc' = [pc EXCEPT ![self] = "p3"]
                  ELSE /\ pc' = [pc EXCEPT ![self] = "p6"]
            /\ UNCHANGED << lock, dict, list, first, last, clock, nextS, 
                            invalid, err, ins, used, ops, op, id, s, index, 
                            now, session, res, rs, good, sound >>

p3(self) == /\ pc[self] = "p3"
            /\ IF list[index[self]] = NoneE
                  THEN /\ err' = "TypeError_purge"
                       /\ res' = [res EXCEPT ![self] = "err"]
                       /\ pc' = [pc EXCEPT ![self] = "rel"]
                  ELSE /\ IF now[self] - list[index[self]].ts > MaxAge
                             THEN /\ pc' = [pc EXCEPT ![self] = "p4"]
                             ELSE /\ pc' = [pc EXCEPT ![self] = "p6"]
                       /\ UNCHANGED << err, res >>
            /\ UNCHANGED << lock, dict, list, first, last, clock, nextS, 
                            invalid, ins, used, ops, op, id, s, index, now, 
                            session, rs, good, sound >>

p4(self) == /\ pc[self] = "p4"
            /\ IF dict[list[index[self]].id] = 0
                  THEN /\ err' = "KeyError_purge"
                       /\ res' = [res EXCEPT ![self] = "err"]
                       /\ pc' = [pc EXCEPT ![self] = "rel"]
                       /\ dict' = dict
                  ELSE /\ dict' = [dict EXCEPT ![list[index[self]].id] = 0]
                       /\ pc' = [pc EXCEPT ![self] = "p5"]
                       /\ UNCHANGED << err, res >>
            /\ UNCHANGED << lock, list, first, last, clock, nextS, invalid, 
                            ins, used, ops, op, id, s, index, now, session, rs, 
                            good, sound >>

p5(self) == /\ pc[self] = "p5"
            /\ index' = [index EXCEPT ![self] = (index[self] + 1) % N]
            /\ pc' = [pc EXCEPT ![self] = "p2"]
            /\ UNCHANGED << lock, dict, list, first, last, clock, nextS, 
                            invalid, err, ins, used, ops, op, id, s, now, 
                            session, res, rs, good, sound >>

p6(self) == /\ pc[self] = "p6"
            /\ first' = index[self]
            /\ pc' = [pc EXCEPT ![self] = "g1"]
            /\ UNCHANGED << lock, dict, list, last, clock, nextS, invalid, err, 
                            ins, used, ops, op, id, s, index, now, session, 
                            res, rs, good, sound >>

g1(self) == /\ pc[self] = "g1"
            /\ IF dict[id[self]] = 0
                  THEN /\ res' = [res EXCEPT ![self] = "miss"]
                       /\ good' = [good EXCEPT ![self] = good[self] /\ GetOK(ins, invalid, id[self], now[self], N, MaxAge, "miss", 0)]
                       /\ pc' = [pc EXCEPT ![self] = "rel"]
                       /\ UNCHANGED session
                  ELSE /\ session' = [session EXCEPT ![self] = dict[id[self]]]
                       /\ pc' = [pc EXCEPT ![self] = "g2"]
                       /\ UNCHANGED << res, good >>
            /\ UNCHANGED << lock, dict, list, first, last, clock, nextS, 
                            invalid, err, ins, used, ops, op, id, s, index, 
                            now, rs, sound >>

g2(self) == /\ pc[self] = "g2"
            /\ IF session[self] \notin invalid
                  THEN /\ res' = [res EXCEPT ![self] = "hit"]
                       /\ rs' = [rs EXCEPT ![self] = session[self]]
                       /\ good' = [good EXCEPT ![self] = good[self] /\ GetOK(ins, invalid, id[self], now[self], N, MaxAge, "hit", session[self])]
                       /\ sound' = [sound EXCEPT ![self] = sound[self] /\ HitSound(ins, invalid, id[self], now[self], MaxAge, session[self])]
                  ELSE /\ res' = [res EXCEPT ![self] = "miss"]
                       /\ good' = [good EXCEPT ![self] = good[self] /\ GetOK(ins, invalid, id[self], now[self], N, MaxAge, "miss", 0)]
                       /\ UNCHANGED << rs, sound >>
            /\ pc' = [pc EXCEPT ![self] = "rel"]
            /\ UNCHANGED << lock, dict, list, first, last, clock, nextS, 
                            invalid, err, ins, used, ops, op, id, s, index, 
                            now, session >>

s1(self) == /\ pc[self] = "s1"
            /\ dict' = [dict EXCEPT ![id[self]] = s[self]]
            /\ pc' = [pc EXCEPT ![self] = "s2"]
            /\ UNCHANGED << lock, list, first, last, clock, nextS, invalid, 
                            err, ins, used, ops, op, id, s, index, now, 
                            session, res, rs, good, sound >>

s2(self) == /\ pc[self] = "s2"
            /\ list' = [list EXCEPT ![last] = [id |-> id[self], ts |-> clock]]
            /\ ins' = RefSet(ins, id[self], s[self], clock)
            /\ pc' = [pc EXCEPT ![self] = "s3"]
            /\ UNCHANGED << lock, dict, first, last, clock, nextS, invalid, 
                            err, used, ops, op, id, s, index, now, session, 
                            res, rs, good, sound >>

s3(self) == /\ pc[self] = "s3"
            /\ last' = (last + 1) % N
            /\ pc' = [pc EXCEPT ![self] = "s4"]
            /\ UNCHANGED << lock, dict, list, first, clock, nextS, invalid, 
                            err, ins, used, ops, op, id, s, index, now, 
                            session, res, rs, good, sound >>

s4(self) == /\ pc[self] = "s4"
            /\ IF last = first
                  THEN /\ pc' = [pc EXCEPT ![self] = "s5"]
                  ELSE /\ pc' = [pc EXCEPT ![self] = "s7"]
            /\ UNCHANGED << lock, dict, list, first, last, clock, nextS, 
                            invalid, err, ins, used, ops, op, id, s, index, 
                            now, session, res, rs, good, sound >>

s5(self) == /\ pc[self] = "s5"
            /\ IF list[first] = NoneE \/ dict[list[first].id] = 0
                  THEN /\ err' = "KeyError_set"
                       /\ res' = [res EXCEPT ![self] = "err"]
                       /\ pc' = [pc EXCEPT ![self] = "rel"]
                       /\ dict' = dict
                  ELSE /\ dict' = [dict EXCEPT ![list[first].id] = 0]
                       /\ pc' = [pc EXCEPT ![self] = "s6"]
                       /\ UNCHANGED << err, res >>
            /\ UNCHANGED << lock, list, first, last, clock, nextS, invalid, 
                            ins, used, ops, op, id, s, index, now, session, rs, 
                            good, sound >>

s6(self) == /\ pc[self] = "s6"
            /\ first' = (first + 1) % N
            /\ pc' = [pc EXCEPT ![self] = "s7"]
            /\ UNCHANGED << lock, dict, list, last, clock, nextS, invalid, err, 
                            ins, used, ops, op, id, s, index, now, session, 
                            res, rs, good, sound >>

s7(self) == /\ pc[self] = "s7"
            /\ res' = [res EXCEPT ![self] = "ok"]
            /\ pc' = [pc EXCEPT ![self] = "rel"]
            /\ UNCHANGED << lock, dict, list, first, last, clock, nextS, 
                            invalid, err, ins, used, ops, op, id, s, index, 
                            now, session, rs, good, sound >>

rel(self) == /\ pc[self] = "rel"
             /\ IF UseLock
                   THEN /\ lock' = 0
                   ELSE /\ TRUE
                        /\ lock' = lock
             /\ pc' = [pc EXCEPT ![self] = "loop"]
             /\ UNCHANGED << dict, list, first, last, clock, nextS, invalid, 
                             err, ins, used, ops, op, id, s, index, now, 
                             session, res, rs, good, sound >>

t(self) == loop(self) \/ acq(self) \/ body(self) \/ p0(self) \/ p1(self)
              \/ p2(self) \/ p3(self) \/ p4(self) \/ p5(self) \/ p6(self)
              \/ g1(self) \/ g2(self) \/ s1(self) \/ s2(self) \/ s3(self)
              \/ s4(self) \/ s5(self) \/ s6(self) \/ s7(self) \/ rel(self)

Next == env
           \/ (\E self \in Threads: t(self))

Spec == Init /\ [][Next]_vars

\* END TRANSLATION

\* ------------------------------------------------------------------ invariants
Quiescent == \A x \in Threads : pc[x] \in {"loop", "acq", "Done"}

\* the cache never holds more than maxEntries sessions
SizeBound == Cardinality(Live) <= N

\* between operations: the dictionary holds exactly the ids of the list window,
\* the window has no empty slot and is ordered in time
DictListConsistent ==
  Quiescent =>
    /\ \A k \in Window : list[k] # NoneE
    /\ Live = { list[k].id : k \in Window }
    /\ Cardinality(Window) < N
    /\ \A k \in Window : k # first => list[(k + N - 1) % N].ts <= list[k].ts

\* a lookup returns the session last stored under the id iff fresh, valid, not evicted
GetReturnsLastSetIfFresh == \A x \in Threads : good[x]

\* a returned session is never expired or invalid (at the moment valid() was read)
NeverExpiredOrInvalid == \A x \in Threads : sound[x]

\* no exception other than the documented miss escapes
NoInternalError == err = "none"

\* lock discipline: shared state is only touched by the lock holder
LockDiscipline == \A x \in Threads :
  pc[x] \in {"body", "p0", "p1", "p2", "p3", "p4", "p5", "p6", "g1", "g2",
             "s1", "s2", "s3", "s4", "s5", "s6", "s7", "rel"} => lock = x

\* ids (and threads) are interchangeable
SymIds == Permutations(Ids)
SymAll == Permutations(Ids) \cup Permutations(Threads)

TypeOK == /\ lock \in {0} \cup Threads
          /\ first \in 0..(N-1) /\ last \in 0..(N-1)
          /\ clock \in 0..MaxClock
=============================================================================
