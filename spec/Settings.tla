------------------------------ MODULE Settings ------------------------------
(***************************************************************************)
(* HandshakeSettings.validate() as the documentation describes it (C19 a): *)
(* a pure, idempotent function that either raises ValueError (a value      *)
(* outside the documented domain, or an inconsistent combination) or       *)
(* returns a self-consistent copy containing only what the installation    *)
(* supports.                                                               *)
(* A case is a settings object obtained from the defaults by a sequence of *)
(* edits <<attr, value>>; values are name sequences, integers (versions    *)
(* 0..4 = SSLv3..TLS1.3, 5 = an unknown version) or booleans.              *)
(***************************************************************************)
EXTENDS Naturals, Sequences, FiniteSets, TLC

Range(s) == {s[i] : i \in 1..Len(s)}

\* documented domains (tlslite/handshakesettings.py docstrings and module constants)
Names == [
  cipherNames |-> {"chacha20-poly1305", "aes256gcm", "aes128gcm", "aes256ccm", "aes128ccm", "aes256", "aes128", "3des",
                   "chacha20-poly1305_draft00", "aes128ccm_8", "aes256ccm_8", "rc4", "null"},
  macNames |-> {"sha", "sha256", "sha384", "aead", "md5"},
  keyExchangeNames |-> {"ecdhe_ecdsa", "rsa", "dhe_rsa", "ecdhe_rsa", "srp_sha", "srp_sha_rsa", "ecdh_anon", "dh_anon", "dhe_dsa"},
  cipherImplementations |-> {"openssl", "pycrypto", "python"},
  certificateTypes |-> {"x509"},
  eccCurves |-> {"x25519", "x448", "secp384r1", "secp256r1", "secp521r1", "brainpoolP512r1", "brainpoolP384r1", "brainpoolP256r1",
                 "brainpoolP256r1tls13", "brainpoolP384r1tls13", "brainpoolP512r1tls13", "secp256k1", "secp224r1", "secp192r1"},
  dhGroups |-> {"ffdhe2048", "ffdhe3072", "ffdhe4096", "ffdhe6144", "ffdhe8192"},
  rsaSigHashes |-> {"sha512", "sha384", "sha256", "sha224", "sha1", "md5"},
  ecdsaSigHashes |-> {"sha512", "sha384", "sha256", "sha224", "sha1"},
  dsaSigHashes |-> {"sha512", "sha384", "sha256", "sha224", "sha1"},
  rsaSchemes |-> {"pss", "pkcs1"},
  psk_modes |-> {"psk_dhe_ke", "psk_ke"},
  \* RFC 8879 algorithms; what can be used additionally depends on the installed codecs (Consistent)
  certificate_compression_send |-> {"zlib", "brotli", "zstd"},
  certificate_compression_receive |-> {"zlib", "brotli", "zstd"} ]
NameAttrs == DOMAIN Names
IntRange == [ minKeySize |-> <<512, 16384>>, maxKeySize |-> <<512, 16384>>, ticketLifetime |-> <<1, 604800>>,
              ticket_count |-> <<0, 65535>>, record_size_limit |-> <<64, 16385>> ]
IntAttrs == DOMAIN IntRange
BoolAttrs == {"useEncryptThenMAC", "useExtendedMasterSecret", "requireExtendedMasterSecret", "usePaddingExtension",
              "use_heartbeat_extension"}
VerAttrs == {"minVersion", "maxVersion"}

\* the defaults (only what the consistency rules need)
Default == [minVersion |-> 1, maxVersion |-> 4, minKeySize |-> 1023, maxKeySize |-> 8193,
            useExtendedMasterSecret |-> TRUE, requireExtendedMasterSecret |-> FALSE,
            eccCurves |-> <<"x25519", "x448", "secp384r1", "secp256r1", "secp521r1", "brainpoolP512r1", "brainpoolP384r1",
                            "brainpoolP256r1", "brainpoolP256r1tls13", "brainpoolP384r1tls13", "brainpoolP512r1tls13">>,
            dhGroups |-> <<"ffdhe2048", "ffdhe3072", "ffdhe4096", "ffdhe6144", "ffdhe8192">>,
            keyShares |-> <<"secp256r1", "x25519">>,
            rsaSigHashes |-> <<"x">>, ecdsaSigHashes |-> <<"x">>, dsaSigHashes |-> <<"x">>, more_sig_schemes |-> <<"Ed25519", "Ed448">>,
            cipherNames |-> <<"x">>, cipherImplementations |-> <<"python">>, certificateTypes |-> <<"x509">>,
            certificate_compression_send |-> <<"zlib">>, certificate_compression_receive |-> <<"zlib">>]

\* apply edits to the part of the state the rules look at
RECURSIVE Apply(_, _)
Apply(st, edits) == IF edits = <<>> THEN st
                    ELSE LET e == Head(edits) IN
                         Apply(IF e.attr \in DOMAIN st THEN [st EXCEPT ![e.attr] = e.v] ELSE st, Tail(edits))

ValueOk(e) ==
  CASE e.attr \in NameAttrs -> Range(e.v) \subseteq Names[e.attr]
    [] e.attr \in IntAttrs -> e.v >= IntRange[e.attr][1] /\ e.v <= IntRange[e.attr][2]
    [] e.attr \in VerAttrs -> e.v \in 0..4
    [] e.attr \in BoolAttrs -> e.v \in BOOLEAN
    [] e.attr = "keyShares" -> TRUE          \* judged against the enabled groups below
    [] OTHER -> TRUE

TLS13Groups == {"x25519", "x448", "secp256r1", "secp384r1", "secp521r1", "brainpoolP256r1tls13", "brainpoolP384r1tls13",
                "brainpoolP512r1tls13", "ffdhe2048", "ffdhe3072", "ffdhe4096", "ffdhe6144", "ffdhe8192"}
Consistent(st, available) ==
  /\ st.minVersion <= st.maxVersion
  /\ st.minKeySize <= st.maxKeySize
  /\ (st.requireExtendedMasterSecret => st.useExtendedMasterSecret)
  /\ Range(st.keyShares) \subseteq Range(st.eccCurves) \cup Range(st.dhGroups)
  /\ st.certificateTypes # <<>>
  \* TLS 1.2 needs signature algorithms
  /\ ~(st.rsaSigHashes = <<>> /\ st.ecdsaSigHashes = <<>> /\ st.dsaSigHashes = <<>> /\ st.more_sig_schemes = <<>> /\ st.maxVersion >= 3)
  \* something usable must remain after removing what the installation lacks
  /\ Range(st.cipherImplementations) \cap available.impls # {}
  /\ (st.cipherNames # <<>> /\ (Range(st.cipherNames) = {"3des"} => available.tdes))
  \* a certificate compression algorithm can be listed only if this installation can compress (send) /
  \* decompress (receive) with it
  /\ Range(st.certificate_compression_send) \subseteq available.compSend
  /\ Range(st.certificate_compression_receive) \subseteq available.compRecv

\* expected outcome of validate() on the edited object
Expected(edits, available) ==
  IF (\A i \in 1..Len(edits) : ValueOk(edits[i])) /\ Consistent(Apply(Default, edits), available)
  THEN "ok" ELSE "ValueError"

\* one observed case: o = [edits, outcome, pure, idem, supported]
CaseOk(o, available) ==
  /\ o.outcome = Expected(o.edits, available)
  /\ o.pure                                     \* the receiver is never modified, whatever the outcome
  /\ (o.outcome = "ok" => o.idem /\ o.supported)
=============================================================================
