------------------------------- MODULE SigKex -------------------------------
(***************************************************************************)
(* Acceptance predicates for signatures and key-agreement shares (C10 b,c).*)
(*                                                                         *)
(* Written from the standards, not from the code:                          *)
(*   RSASSA-PKCS1-v1_5  RFC 8017 8.2.2 / 9.2  (EMSA-PKCS1-v1_5: the        *)
(*       verifier re-encodes and compares, i.e. EM must be exactly         *)
(*       00 01 FF..FF 00 || DigestInfo || H with at least 8 FF octets and  *)
(*       nothing after H)                                                  *)
(*   RSASSA-PSS         RFC 8017 8.1.2 / 9.1.2 steps 3-14                   *)
(*   FFDH               RFC 7919 5.1 / RFC 8446 4.2.8.1: 1 < Y < p-1;      *)
(*                      NIST SP 800-56A 5.6.2.3.1; result not 1 or p-1      *)
(*   ECDH (Weierstrass) RFC 8422 5.4.1 / RFC 8446 4.2.8.2: length, format  *)
(*                      octet, coordinates < p, point on the curve         *)
(*   X25519 / X448      RFC 7748 6.1/6.2, RFC 8446 7.4.2: exact length,    *)
(*                      an all-zero shared secret is refused               *)
(* Big integers are big-endian byte sequences (TLC integers are 32 bit).   *)
(* Leaves (harness: hashlib, pow, RFC 7748 ladder, curve equation by pow): *)
(* hash values, MGF1 output, modular exponentiations, OnCurve, X output.   *)
(***************************************************************************)
EXTENDS Integers, Sequences, FiniteSets, Folds, SequencesExt, Bitwise

\* ---- big-endian byte strings as numbers ------------------------------------
\* three-way comparison of equally long strings: 0 equal, 1 a < b, 2 a > b
Cmp(a, b) ==
  FoldLeft(LAMBDA s, i : IF s # 0 THEN s ELSE IF a[i] < b[i] THEN 1 ELSE IF a[i] > b[i] THEN 2 ELSE 0,
           0, [i \in 1..Len(a) |-> i])
Strip(a) ==                       \* without leading zero octets
  LET nz == { i \in 1..Len(a) : a[i] # 0 } IN
  IF nz = {} THEN <<>> ELSE SubSeq(a, CHOOSE i \in nz : \A j \in nz : i <= j, Len(a))
NumLess(a, b) ==
  LET x == Strip(a)  y == Strip(b) IN
  IF Len(x) # Len(y) THEN Len(x) < Len(y) ELSE Cmp(x, y) = 1
NumEq(a, b) == Strip(a) = Strip(b)
IsSmall(a, v) == Strip(a) = (IF v = 0 THEN <<>> ELSE <<v>>)       \* a = v for 0 <= v <= 255
AllZero(a) == \A i \in 1..Len(a) : a[i] = 0
\* p - 1 for odd p
MinusOneOdd(p) == [p EXCEPT ![Len(p)] = @ - 1]
BitLen8(x) == CHOOSE b \in 0..8 : 2^b > x /\ (b = 0 \/ 2^(b - 1) <= x)
ModBits(n) == 8 * (Len(n) - 1) + BitLen8(n[1])                     \* n[1] # 0

\* ---- RSA signature representative (RFC 8017 5.2.2 RSAVP1, 8.x.2 step 1) ---------
SigInRange(sig, n) == Len(sig) = Len(n) /\ Cmp(sig, n) = 1

\* ---- EMSA-PKCS1-v1_5 (RFC 8017 9.2) ---------------------------------------------
\* DigestInfo prefixes, RFC 8017 9.2 Note 1 (parameters NULL present)
DigestInfoPrefix(h) ==
  CASE h = "md5"    -> <<48, 32, 48, 12, 6, 8, 42, 134, 72, 134, 247, 13, 2, 5, 5, 0, 4, 16>>
    [] h = "sha1"   -> <<48, 33, 48, 9, 6, 5, 43, 14, 3, 2, 26, 5, 0, 4, 20>>
    [] h = "sha224" -> <<48, 45, 48, 13, 6, 9, 96, 134, 72, 1, 101, 3, 4, 2, 4, 5, 0, 4, 28>>
    [] h = "sha256" -> <<48, 49, 48, 13, 6, 9, 96, 134, 72, 1, 101, 3, 4, 2, 1, 5, 0, 4, 32>>
    [] h = "sha384" -> <<48, 65, 48, 13, 6, 9, 96, 134, 72, 1, 101, 3, 4, 2, 2, 5, 0, 4, 48>>
    [] h = "sha512" -> <<48, 81, 48, 13, 6, 9, 96, 134, 72, 1, 101, 3, 4, 2, 3, 5, 0, 4, 64>>
    [] h = "raw"    -> <<>>        \* TLS 1.0/1.1 MD5||SHA-1: no DigestInfo (RFC 2246 7.4.3)
HashLen(h) ==
  CASE h = "md5" -> 16 [] h = "sha1" -> 20 [] h = "sha224" -> 28 [] h = "sha256" -> 32
    [] h = "sha384" -> 48 [] h = "sha512" -> 64 [] h = "raw" -> 36
\* SHA-1 AlgorithmIdentifier with the parameters field omitted
Sha1NoNullPrefix == <<48, 31, 48, 7, 6, 5, 43, 14, 3, 2, 26, 4, 20>>

Pkcs1Ok(em, k, prefix, digest) ==
  LET t == prefix \o digest
      tLen == Len(t) IN
  /\ Len(em) = k
  /\ k >= tLen + 11                                  \* "intended encoded message length too short"
  /\ em[1] = 0 /\ em[2] = 1
  /\ \A i \in 3..(k - tLen - 1) : em[i] = 255        \* PS: k - tLen - 3 >= 8 octets FF
  /\ em[k - tLen] = 0
  /\ SubSeq(em, k - tLen + 1, k) = t                 \* nothing after the hash

\* Named accepted deviation (documented in tlslite/utils/rsakey.py addPKCS1SHA1Prefix and
\* common practice): for SHA-1 the DigestInfo without NULL parameters is accepted as well.
Dev_Sha1WithoutNull(em, k, h, digest) == h = "sha1" /\ Pkcs1Ok(em, k, Sha1NoNullPrefix, digest)

Pkcs1Accept(em, k, h, digest) ==
  \/ Pkcs1Ok(em, k, DigestInfoPrefix(h), digest)
  \/ Dev_Sha1WithoutNull(em, k, h, digest)

\* sig, n: k octets; m = I2OSP(sig^e mod n, k) (leaf)
Pkcs1SigOk(sig, n, m, h, digest) ==
  /\ SigInRange(sig, n)
  /\ Len(digest) = HashLen(h)
  /\ Pkcs1Accept(m, Len(n), h, digest)

\* ---- EMSA-PSS-VERIFY (RFC 8017 9.1.2) ---------------------------------------------
XorSeq(a, b) == [i \in 1..Len(a) |-> a[i] ^^ b[i]]
PssOk(em, emBits, mHash, sLen, hLen, Mgf(_, _), Hash(_)) ==
  LET emLen == (emBits + 7) \div 8
      zbits == 8 * emLen - emBits IN
  /\ Len(em) = emLen
  /\ Len(mHash) = hLen
  /\ emLen >= hLen + sLen + 2                                        \* step 3
  /\ em[emLen] = 188                                                  \* step 4  (0xbc)
  /\ LET maskedDB == SubSeq(em, 1, emLen - hLen - 1)                   \* step 5
         H == SubSeq(em, emLen - hLen, emLen - 1) IN
     /\ maskedDB[1] \div (2^(8 - zbits)) = 0                           \* step 6
     /\ LET dbMask == Mgf(H, emLen - hLen - 1)                         \* step 7
            DB0 == XorSeq(maskedDB, dbMask)                            \* step 8
            DB == [DB0 EXCEPT ![1] = @ % (2^(8 - zbits))]              \* step 9
            psLen == emLen - hLen - sLen - 2 IN
        /\ \A i \in 1..psLen : DB[i] = 0                               \* step 10
        /\ DB[psLen + 1] = 1
        /\ LET salt == SubSeq(DB, Len(DB) - sLen + 1, Len(DB))         \* step 11
               M2 == <<0, 0, 0, 0, 0, 0, 0, 0>> \o mHash \o salt IN     \* step 12
           H = Hash(M2)                                                \* steps 13, 14

\* RSASSA-PSS-VERIFY (8.1.2): EM = I2OSP(m, ceil((modBits-1)/8)) must not overflow
PssSigOk(sig, n, m, mHash, sLen, hLen, Mgf(_, _), Hash(_)) ==
  LET k == Len(n)
      emBits == ModBits(n) - 1
      emLen == (emBits + 7) \div 8 IN
  /\ SigInRange(sig, n)
  /\ \A i \in 1..(k - emLen) : m[i] = 0
  /\ PssOk(SubSeq(m, k - emLen + 1, k), emBits, mHash, sLen, hLen, Mgf, Hash)

\* ---- finite-field DH --------------------------------------------------------------
\* y, p: byte strings (y of any length); p an odd prime
FfdhShareOk(y, p) ==
  /\ ~IsSmall(y, 0) /\ ~IsSmall(y, 1)                 \* 2 <= y
  /\ NumLess(y, p)                                     \* y < p
  /\ ~NumEq(y, MinusOneOdd(p))                         \* y <= p - 2
\* TLS 1.3 encodes the share as exactly |p| octets (RFC 8446 4.2.8.1)
FfdhShare13Ok(y, p) == Len(y) = Len(p) /\ FfdhShareOk(y, p)
\* s = y^x mod p (leaf): a result in the subgroup of order <= 2 is refused
FfdhResultOk(s, p) == ~IsSmall(s, 1) /\ ~NumEq(s, MinusOneOdd(p))
\* the premaster secret: leading zero octets stripped up to TLS 1.2 (RFC 5246 8.1.2),
\* fixed length in TLS 1.3 (RFC 8446 7.4.1)
FfdhSecret(s, p, tls13) == IF tls13 THEN s ELSE Strip(s)

\* ---- ECDH on Weierstrass curves ----------------------------------------------------
\* share: octets as received; cl: coordinate length; p: field prime (cl octets);
\* formats: subset of {"uncompressed", "compressed", "hybrid"} the receiver allows;
\* OnCurve: leaf (curve equation holds for the encoded x (and y)); ParityOk: leaf for
\* hybrid encodings (format octet matches the parity of y)
EcShareOk(share, cl, p, formats, OnCurve, ParityOk) ==
  /\ Len(share) >= 1
  /\ LET f == share[1] IN
     CASE f = 4 ->
            /\ "uncompressed" \in formats
            /\ Len(share) = 1 + 2 * cl
            /\ Cmp(SubSeq(share, 2, cl + 1), p) = 1
            /\ Cmp(SubSeq(share, cl + 2, 2 * cl + 1), p) = 1
            /\ OnCurve
       [] f \in {2, 3} ->
            /\ "compressed" \in formats
            /\ Len(share) = 1 + cl
            /\ Cmp(SubSeq(share, 2, cl + 1), p) = 1
            /\ OnCurve
       [] f \in {6, 7} ->
            /\ "hybrid" \in formats
            /\ Len(share) = 1 + 2 * cl
            /\ Cmp(SubSeq(share, 2, cl + 1), p) = 1
            /\ Cmp(SubSeq(share, cl + 2, 2 * cl + 1), p) = 1
            /\ OnCurve /\ ParityOk
       [] OTHER -> FALSE                              \* includes 00, the point at infinity

\* ---- X25519 / X448 -----------------------------------------------------------------
\* out: leaf, X(private, share) by the RFC 7748 ladder
XShareOk(share, size, out) == Len(share) = size /\ ~AllZero(out)
=============================================================================
