---------------------------- MODULE SigKexCheck ----------------------------
(***************************************************************************)
(* Oracle for C10 (b) and (c): every logged verify() / calc_shared_key()   *)
(* outcome must equal the SigKex predicate.  TRACE_FILE: JSON list of      *)
(* cases, one TLC state each, discriminated by `kind`:                     *)
(*  pkcs1  {n, sig, m, h, digest, keyt, v} m = I2OSP(sig^e mod n, k) (leaf,*)
(*                                        [] when sig is out of range)     *)
(*  pss    {n, sig, m, h, mhash, slen, mgf:[[seed,len,out]..],             *)
(*          hsh:[[input,out]..], v}       leaves MGF1 / Hash               *)
(*  sound  {own, ossl}    a library-made signature under the signer's own  *)
(*                        public key / under OpenSSL: both must be TRUE    *)
(*  foreign{lib}          an OpenSSL-made signature in the library: TRUE   *)
(*  mutant {v}            a valid (signature, message, hash, scheme) with  *)
(*                        one change: must be refused                      *)
(*  ffdh   {p, y, enc13, tls13, s, v, out}  s = y^x mod p (leaf)           *)
(*  ec     {share, cl, p, formats, oncurve, parity, v}                     *)
(*  x      {share, size, out, v, ret}     out = X(priv, share) (leaf)      *)
(*  agree  {same, indep}  both parties derive the same secret, equal to an *)
(*                        independent derivation (pow / openssl / ladder)  *)
(***************************************************************************)
EXTENDS SigKex, TLC, Json, IOUtils

VARIABLE i
Cases == JsonDeserialize(IOEnv.TRACE_FILE)
Init == i \in 1..Len(Cases)
Next == FALSE /\ UNCHANGED i

Lookup2(tab, a, b) ==
  LET hits == { j \in 1..Len(tab) : tab[j][1] = a /\ tab[j][2] = b } IN
  IF hits = {} THEN Assert(FALSE, <<"missing MGF leaf", a, b>>) ELSE tab[CHOOSE j \in hits : TRUE][3]
Lookup1(tab, a) ==
  LET hits == { j \in 1..Len(tab) : tab[j][1] = a } IN
  IF hits = {} THEN Assert(FALSE, <<"missing hash leaf", a>>) ELSE tab[CHOOSE j \in hits : TRUE][2]


Expected(C) ==
  CASE C.kind = "pkcs1"  -> /\ C.keyt = "rsa"      \* an id-RSASSA-PSS key is restricted to PSS (RFC 4055 1.2)
                            /\ Pkcs1SigOk(C.sig, C.n, C.m, C.h, C.digest)
    [] C.kind = "pss"    -> PssSigOk(C.sig, C.n, C.m, C.mhash, C.slen, HashLen(C.h),
                                     LAMBDA seed, len : Lookup2(C.mgf, seed, len),
                                     LAMBDA x : Lookup1(C.hsh, x))
    [] C.kind = "sound"  -> TRUE
    [] C.kind = "foreign" -> TRUE
    [] C.kind = "mutant" -> FALSE
    [] C.kind = "ffdh"   -> /\ (IF C.enc13 THEN FfdhShare13Ok(C.y, C.p) ELSE FfdhShareOk(C.y, C.p))
                            /\ FfdhResultOk(C.s, C.p)
    [] C.kind = "ec"     -> EcShareOk(C.share, C.cl, C.p, ToSet(C.formats), C.oncurve, C.parity)
    [] C.kind = "x"      -> XShareOk(C.share, C.size, C.out)
    [] C.kind = "agree"  -> TRUE

Agrees(C) ==
  LET e == Expected(C) IN
  CASE C.kind = "sound"   -> C.own /\ C.ossl
    [] C.kind = "foreign" -> C.lib
    [] C.kind = "agree"   -> C.same /\ C.indep
    [] C.kind = "ffdh"    -> C.v = e /\ (e => C.out = FfdhSecret(C.s, C.p, C.tls13))
    [] C.kind = "x"       -> C.v = e /\ (e => C.ret = C.out)
    [] OTHER              -> C.v = e

Check == LET C == Cases[i] IN Agrees(C) \/ PrintT(<<"BAD", i, C.kind, Expected(C)>>)

\* ---- sanity of the predicates on hand-made values ---------------------------------
ASSUME NumLess(<<0, 1, 255>>, <<2, 0>>) /\ ~NumLess(<<2, 0>>, <<0, 2, 0>>) /\ NumEq(<<0, 0, 7>>, <<7>>)
ASSUME FfdhShareOk(<<2>>, <<0, 23>>) /\ FfdhShareOk(<<21>>, <<23>>) /\ ~FfdhShareOk(<<22>>, <<23>>)
       /\ ~FfdhShareOk(<<1>>, <<23>>) /\ ~FfdhShareOk(<<0, 0>>, <<23>>) /\ ~FfdhShareOk(<<23>>, <<23>>)
ASSUME ModBits(<<1, 0>>) = 9 /\ ModBits(<<128, 0>>) = 16 /\ ModBits(<<255>>) = 8
ASSUME LET d == [j \in 1..20 |-> j]
           em == <<0, 1>> \o [j \in 1..10 |-> 255] \o <<0>> \o DigestInfoPrefix("sha1") \o d IN
       /\ Pkcs1Ok(em, 48, DigestInfoPrefix("sha1"), d)
       /\ ~Pkcs1Ok([em EXCEPT ![5] = 254], 48, DigestInfoPrefix("sha1"), d)
       /\ ~Pkcs1Ok(em \o <<0>>, 49, DigestInfoPrefix("sha1"), d)
=============================================================================
