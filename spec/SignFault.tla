------------------------------ MODULE SignFault ------------------------------
(***************************************************************************)
(* C10 (a): a signature that does not verify under the signer's own public *)
(* key (e.g. after a computation fault) is never placed on the wire.       *)
(*                                                                         *)
(* One endpoint (the EUT) runs a handshake; the harness makes its k-th     *)
(* private-key signing operation return a wrong value.  Trace:             *)
(*   CFG   {flavour, role}                                                  *)
(*   SENT  {tok}     a handshake message the EUT put on the wire            *)
(*   FAULT {ktype}   the faulty private-key operation happened              *)
(*   END   {result, alert}  outcome of the EUT's handshake call             *)
(***************************************************************************)
EXTENDS Naturals, Sequences, FiniteSets, TLC

VARIABLES faulted,   \* the fault has been injected
          leaked,    \* a signature-carrying message was sent after the fault
          ended
svars == <<faulted, leaked, ended>>
SInit == faulted = FALSE /\ leaked = FALSE /\ ended = FALSE

\* messages that carry a signature made with the EUT's long-term private key
Signed == {"SKE", "CV"}

Sent(tok) == /\ ~ended
             /\ leaked' = (leaked \/ (faulted /\ tok \in Signed))
             /\ UNCHANGED <<faulted, ended>>
Fault == /\ ~ended /\ faulted' = TRUE /\ UNCHANGED <<leaked, ended>>
\* the call must fail (the library reports an internal error) and nothing faulty was sent
End(result) == /\ ~ended /\ ended' = TRUE
               /\ (faulted => result # "ok")
               /\ UNCHANGED <<faulted, leaked>>

NoFaultySignatureOnWire == ~leaked
=============================================================================
