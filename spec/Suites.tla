------------------------------- MODULE Suites -------------------------------
(***************************************************************************)
(* Registered meaning of a TLS cipher suite, computed from the tokens of   *)
(* its IANA name (the name split on "_"), and what that meaning implies on *)
(* the wire and in the record layer.  (C20, also used by C03 / C19.)        *)
(* Sources: IANA TLS Cipher Suites registry, RFC 5246 (A.5, 6.2.3), RFC     *)
(* 5288/5289 (GCM, SHA-2 suites), RFC 6655/7251 (CCM), RFC 7905 (ChaCha20), *)
(* RFC 8446 (B.4), RFC 4492/8422 (ECC), RFC 5054 (SRP).                     *)
(***************************************************************************)
EXTENDS Naturals, Sequences, FiniteSets, TLC

Idx(t, x) == CHOOSE i \in 1..Len(t) : t[i] = x
Has(t, x) == \E i \in 1..Len(t) : t[i] = x

\* tokens: <<"TLS","ECDHE","RSA","WITH","AES","128","GCM","SHA256">> or <<"TLS","AES","128","GCM","SHA256">>
IsTls13(t) == ~Has(t, "WITH")
KexTokens(t) == IF IsTls13(t) THEN <<>> ELSE SubSeq(t, 2, Idx(t, "WITH") - 1)
CipherTokens(t) == IF IsTls13(t) THEN SubSeq(t, 2, Len(t)) ELSE SubSeq(t, Idx(t, "WITH") + 1, Len(t))

Kex(t) == LET k == KexTokens(t) IN
  IF IsTls13(t) THEN "tls13"
  ELSE IF k = <<"RSA">> THEN "rsa"
  ELSE IF k = <<"DHE", "RSA">> THEN "dhe_rsa"
  ELSE IF k = <<"DHE", "DSS">> THEN "dhe_dsa"
  ELSE IF k = <<"ECDHE", "RSA">> THEN "ecdhe_rsa"
  ELSE IF k = <<"ECDHE", "ECDSA">> THEN "ecdhe_ecdsa"
  ELSE IF k = <<"SRP", "SHA">> THEN "srp_sha"
  ELSE IF k = <<"SRP", "SHA", "RSA">> THEN "srp_sha_rsa"
  ELSE IF k = <<"SRP", "SHA", "DSS">> THEN "srp_sha_dss"
  ELSE IF k = <<"DH", "ANON">> THEN "dh_anon"
  ELSE IF k = <<"ECDH", "ANON">> THEN "ecdh_anon"
  ELSE "static"      \* DH_DSS, DH_RSA, ECDH_ECDSA, ECDH_RSA: fixed (EC)DH certificates

\* key type of the certificate that authenticates the server ("none": no certificate message)
CertKey(t) == LET k == Kex(t) IN
  CASE k \in {"rsa", "dhe_rsa", "ecdhe_rsa", "srp_sha_rsa"} -> "rsa"
    [] k \in {"dhe_dsa", "srp_sha_dss"} -> "dsa"
    [] k = "ecdhe_ecdsa" -> "ecdsa"
    [] k \in {"srp_sha", "dh_anon", "ecdh_anon"} -> "none"
    [] OTHER -> "any"
\* a ServerKeyExchange message is sent for every key exchange except RSA key transport
HasSKE(t) == Kex(t) \notin {"rsa", "tls13", "static"}

Draft00(t) == Len(t) >= 2 /\ t[Len(t) - 1] = "draft" /\ t[Len(t)] = "00"
C(t) == LET c == CipherTokens(t) IN IF Draft00(t) THEN SubSeq(c, 1, Len(c) - 2) ELSE c

Cipher(t) == LET c == C(t) IN
  IF c[1] = "NULL" THEN "null"
  ELSE IF c[1] = "RC4" THEN "rc4"
  ELSE IF c[1] = "3DES" THEN "3des"
  ELSE IF c[1] = "CHACHA20" THEN "chacha20"
  ELSE IF c[1] = "AES" /\ c[3] = "CBC" THEN "aescbc"
  ELSE IF c[1] = "AES" /\ c[3] = "GCM" THEN "aesgcm"
  ELSE IF c[1] = "AES" /\ c[3] = "CCM" /\ Len(c) >= 4 /\ c[4] = "8" THEN "aesccm8"
  ELSE IF c[1] = "AES" /\ c[3] = "CCM" THEN "aesccm"
  ELSE "unknown"
Aead(t) == Cipher(t) \in {"aesgcm", "aesccm", "aesccm8", "chacha20"}
KeyLen(t) == LET c == C(t) IN
  CASE Cipher(t) = "null" -> 0
    [] Cipher(t) = "rc4" -> 16
    [] Cipher(t) = "3des" -> 24
    [] Cipher(t) = "chacha20" -> 32
    [] OTHER -> IF c[2] = "128" THEN 16 ELSE IF c[2] = "256" THEN 32 ELSE 0
BlockLen(t) == CASE Cipher(t) = "3des" -> 8 [] Cipher(t) = "aescbc" -> 16 [] OTHER -> 0
TagLen(t) == CASE Cipher(t) = "aesccm8" -> 8 [] Aead(t) -> 16 [] OTHER -> 0
\* the last token names the MAC hash (non-AEAD) or the PRF hash (AEAD / TLS 1.3)
LastTok(t) == LET c == C(t) IN c[Len(c)]
MacName(t) == IF Aead(t) THEN "aead"
              ELSE CASE LastTok(t) = "MD5" -> "md5" [] LastTok(t) = "SHA" -> "sha"
                     [] LastTok(t) = "SHA256" -> "sha256" [] LastTok(t) = "SHA384" -> "sha384" [] OTHER -> "unknown"
MacLen(t) == CASE MacName(t) = "md5" -> 16 [] MacName(t) = "sha" -> 20 [] MacName(t) = "sha256" -> 32
               [] MacName(t) = "sha384" -> 48 [] OTHER -> 0
\* PRF hash in TLS 1.2 / HKDF hash in TLS 1.3: SHA-384 iff the name ends in SHA384, else SHA-256
PrfHash(t) == IF LastTok(t) = "SHA384" THEN "sha384" ELSE "sha256"
\* fixed (implicit) IV / nonce part kept in the connection state
FixedIvLen(t, ver) == CASE ver = 4 -> 12
                        [] Cipher(t) \in {"aesgcm", "aesccm", "aesccm8"} -> 4
                        \* draft-ietf-tls-chacha20-poly1305-00 (ids 0xCCA1-3, never registered): 4-byte fixed part + sequence number
                        [] Cipher(t) = "chacha20" -> IF Draft00(t) THEN 4 ELSE 12
                        [] OTHER -> 0
\* versions: 0 = SSLv3 ... 3 = TLS 1.2, 4 = TLS 1.3
MinVer(t) == IF IsTls13(t) THEN 4
             ELSE IF Aead(t) \/ MacName(t) \in {"sha256", "sha384"} THEN 3
             \* SRP (RFC 5054) and ECC (RFC 4492/8422) suites are specified for TLS; tlslite-ng, like other stacks,
             \* also runs them with SSLv3 framing.  The registry does not forbid it, so it is not judged here.
             ELSE 0
DefinedAt(t, ver) == IF IsTls13(t) THEN ver = 4 ELSE (ver < 4 /\ ver >= MinVer(t))

\* PRF actually used for Finished at version ver
PrfAt(t, ver) == IF ver = 4 THEN PrfHash(t) ELSE IF ver = 3 THEN PrfHash(t) ELSE "legacy"

(***************************************************************************)
(* wire length of one protected record carrying n plaintext bytes          *)
(***************************************************************************)
RecordLenOk(t, ver, etm, n, wlen) ==
  LET b == BlockLen(t)  m == MacLen(t)  iv == IF ver >= 2 THEN b ELSE 0 IN
  IF ver = 4 THEN wlen = n + 1 + TagLen(t)
  ELSE IF Cipher(t) \in {"aesgcm", "aesccm", "aesccm8"} THEN wlen = 8 + n + TagLen(t)
  ELSE IF Cipher(t) = "chacha20" THEN wlen = n + TagLen(t)
  ELSE IF b = 0 THEN wlen = n + m
  ELSE IF etm
       THEN /\ wlen >= iv + n + 1 + m /\ wlen <= iv + n + 256 + m /\ (wlen - iv - m) % b = 0
       ELSE /\ wlen >= iv + n + m + 1 /\ wlen <= iv + n + m + 256 /\ (wlen - iv) % b = 0

(***************************************************************************)
(* an observation of one completed handshake that negotiated the suite     *)
(***************************************************************************)
\* o: [ver, etm, ske, cert, certKey, factory, keyLen, fixedIv, macLen, tagLen, prf, cipherName, macName, recs]
CipherNameOk(t, name) ==
  LET c == Cipher(t)  k == KeyLen(t) IN
  CASE c = "null" -> name = "null" [] c = "rc4" -> name = "rc4" [] c = "3des" -> name = "3des"
    [] c = "chacha20" -> name = IF Draft00(t) THEN "chacha20-poly1305_draft00" ELSE "chacha20-poly1305"
    [] c = "aescbc" -> name = IF k = 16 THEN "aes128" ELSE "aes256"
    [] c = "aesgcm" -> name = IF k = 16 THEN "aes128gcm" ELSE "aes256gcm"
    [] c = "aesccm" -> name = IF k = 16 THEN "aes128ccm" ELSE "aes256ccm"
    [] c = "aesccm8" -> name = IF k = 16 THEN "aes128ccm_8" ELSE "aes256ccm_8"
    [] OTHER -> FALSE
FactoryOk(t, f) == CASE Cipher(t) = "aescbc" -> f = "aes" [] OTHER -> f = Cipher(t)

SemanticsMatch(t, o) ==
  /\ DefinedAt(t, o.ver)                                    \* never negotiated in a version that does not define it
  /\ (o.ver < 4 => (o.ske = HasSKE(t)))
  /\ (o.ver < 4 => (o.cert = (CertKey(t) # "none")))
  /\ (o.ver < 4 /\ CertKey(t) \notin {"none", "any"} => o.certKey = CertKey(t))
  /\ FactoryOk(t, o.factory) /\ o.keyLen = KeyLen(t)
  /\ o.macLen = MacLen(t) /\ o.tagLen = TagLen(t)
  /\ (Aead(t) => o.fixedIv = FixedIvLen(t, o.ver))
  /\ o.prf = PrfAt(t, o.ver)
  \* TLS 1.3: later generations of the traffic secrets use the same hash (RFC 8446 7.2)
  /\ (o.ver = 4 => o.kuPrf = PrfAt(t, 4))
  /\ CipherNameOk(t, o.sessCipherName)
  /\ (~Aead(t) => o.macName = MacName(t))
  \* the record MAC is the one the version defines for the hash the name gives (SSLv3 MAC / HMAC), recomputed from the key
  /\ (~Aead(t) => o.macProbe = "ok")
  /\ \A i \in 1..Len(o.recs) : RecordLenOk(t, o.ver, o.etm, o.recs[i][1], o.recs[i][2])
=============================================================================
