------------------------------- MODULE Tamper -------------------------------
(***************************************************************************)
(* C04: an on-path attacker without keys changes, deletes, inserts or      *)
(* reorders handshake traffic.  Abstract model of transcript binding:      *)
(* every endpoint keeps the sequence of handshake messages as it saw them; *)
(* a Finished message verifies iff the verifier's transcript equals the     *)
(* transcript the sender computed it over; an endpoint completes only after *)
(* the peer's Finished verified.  TLC explores all attacker scripts of       *)
(* <= MaxOps operations on the recorded honest flow of every flavour         *)
(* (FLOW_FILE) and checks that both endpoints never complete with different  *)
(* transcripts; each script is emitted for replay on live endpoints.         *)
(***************************************************************************)
EXTENDS Naturals, Sequences, FiniteSets, TLC, Json, IOUtils

CONSTANT MaxOps
Flows == JsonDeserialize(IOEnv.FLOW_FILE)     \* [name, msgs: [[dir, tok, plain]...]] dir "c2s"/"s2c", plain: attackable
NFl == Len(Flows)

VARIABLES fi, script, k, seenC, seenS, failed, doneC, doneS
vars == <<fi, script, k, seenC, seenS, failed, doneC, doneS>>
M == Flows[fi].msgs
Dir(i) == M[i][1]
Tok(i) == M[i][2]
Plain(i) == M[i][3]

Init == /\ fi \in 1..NFl /\ script = <<>> /\ k = 1
        /\ seenC = <<>> /\ seenS = <<>> /\ failed = FALSE /\ doneC = FALSE /\ doneS = FALSE

\* message i is delivered as content x (x = i: unchanged; x = i + 1000: modified in its body)
Sender(i) == IF Dir(i) = "c2s" THEN "c" ELSE "s"
IsFinished(i) == Tok(i) = "FIN"
\* the transcripts the two sides hold just before message i is processed
Deliver(i, x) ==
  LET sC == IF Sender(i) = "c" THEN Append(seenC, i) ELSE Append(seenC, x)
      sS == IF Sender(i) = "s" THEN Append(seenS, i) ELSE Append(seenS, x)
      \* a Finished verifies iff it arrives unmodified and the receiver's transcript before it
      \* equals the sender's transcript before it
      finOk == x = i /\ seenC = seenS
  IN /\ seenC' = sC /\ seenS' = sS
     /\ failed' = (failed \/ (IsFinished(i) /\ ~finOk))
     /\ doneC' = (doneC \/ (IsFinished(i) /\ Sender(i) = "s" /\ finOk /\ ~failed))
     /\ doneS' = (doneS \/ (IsFinished(i) /\ Sender(i) = "c" /\ finOk /\ ~failed))

Honest == /\ k <= Len(M) /\ ~failed /\ Deliver(k, k) /\ k' = k + 1 /\ UNCHANGED <<fi, script>>
\* attacker operations on the plaintext message k
TamperBody == /\ k <= Len(M) /\ ~failed /\ Plain(k) /\ Len(script) < MaxOps
              /\ Deliver(k, k + 1000) /\ k' = k + 1
              /\ script' = Append(script, <<"tamper", k>>) /\ UNCHANGED fi
\* a dropped / duplicated / swapped message breaks the receiver's message order (C06): it aborts
Structural(op) == /\ k <= Len(M) /\ ~failed /\ Plain(k) /\ Len(script) < MaxOps
                  /\ failed' = TRUE /\ k' = k + 1
                  /\ script' = Append(script, <<op, k>>)
                  /\ UNCHANGED <<fi, seenC, seenS, doneC, doneS>>
Next == Honest \/ TamperBody \/ Structural("drop") \/ Structural("dup") \/ Structural("swap")

\* never both complete while holding different transcripts (hence different views / secrets)
NoDisagreement == (doneC /\ doneS) => seenC = seenS
\* a modified handshake message can never lead to both sides completing
TamperDetected == (doneC /\ doneS) => script = <<>>
Emit == (k > Len(M) \/ failed) /\ script # <<>> =>
          PrintT(ToJson([fi |-> fi, script |-> script, both |-> (doneC /\ doneS)]))
=============================================================================
