----------------------------- MODULE Transport -----------------------------
(***************************************************************************)
(* The I/O generator protocol of tlslite-ng (C14): how one endpoint reads  *)
(* records from / writes records to a non-blocking socket that may deliver *)
(* or accept any number of bytes per call and may report would-block any   *)
(* number of times.                                                        *)
(*                                                                         *)
(* Code: RecordSocket._sockRecvAll / _sockSendAll / _recvHeader / recv     *)
(* (recordlayer.py 58-236), BufferedSocket.recv / send / flush.            *)
(*                                                                         *)
(* Reader: the byte stream is a sequence of records (5-byte header, body). *)
(* The reader asks for 1 byte, then 4, then the body; BufferedSocket reads *)
(* ahead (asks the OS socket for max(ReadAhead, n)) and serves later       *)
(* requests from its buffer.  The environment decides how many bytes each  *)
(* OS recv returns (1..asked, at most what has arrived) or would-block.    *)
(* Writer: _sockSendAll pushes `rem` bytes; each OS send accepts 1..rem     *)
(* bytes or would-blocks.                                                  *)
(***************************************************************************)
EXTENDS Naturals, Sequences, FiniteSets, TLC

CONSTANTS ReadAhead,   \* BufferedSocket read-ahead quantum (4096 in the code; small in model checking)
          MaxWB        \* bound on spurious would-blocks (model checking)

HDR == 5
RECURSIVE Total(_, _)
Total(s, i) == IF i = 0 THEN 0 ELSE HDR + s[i] + Total(s, i - 1)

VARIABLES
  bodies,    \* sequence of record body lengths forming the incoming stream (constant per behaviour)
  arrived,   \* bytes the network has delivered into the OS socket buffer so far
  taken,     \* bytes the endpoint has taken out of the OS socket (sum of recv results)
  bsbuf,     \* bytes sitting in BufferedSocket._read_buffer
  phase,     \* "h1" | "h4" | "body" | "done"
  need,      \* bytes still missing for the current _sockRecvAll request
  rec,       \* index of the record being read
  base,      \* bytes of the stream before record `rec` (running total, avoids recomputation)
  out,       \* number of records handed upward
  lastWB,    \* the last OS recv reported would-block (and nothing happened since)
  yields,    \* 1 iff the generator has yielded 0 and was not resumed into an I/O call yet
  nwb
rvars == <<bodies, arrived, taken, bsbuf, phase, need, rec, base, out, lastWB, yields, nwb>>

StreamLen == Total(bodies, Len(bodies))
Max(a, b) == IF a > b THEN a ELSE b
Min(a, b) == IF a < b THEN a ELSE b

RInitWith(b) == /\ bodies = b /\ arrived = 0 /\ taken = 0 /\ bsbuf = 0 /\ phase = IF Len(bodies) = 0 THEN "done" ELSE "h1"
         /\ need = 1 /\ rec = 1 /\ base = 0 /\ out = 0 /\ lastWB = FALSE /\ yields = 0 /\ nwb = 0

\* the network delivers more bytes
Arrive == /\ arrived < StreamLen
          /\ \E k \in 1..(StreamLen - arrived) : arrived' = arrived + k
          /\ UNCHANGED <<bodies, taken, bsbuf, phase, need, rec, base, out, lastWB, yields, nwb>>

\* request satisfied: move to the next phase
Advance(b, n) ==   \* b = new bsbuf, n = new need after consuming
  IF n > 0 THEN /\ need' = n /\ UNCHANGED <<phase, rec, base, out>>
  ELSE CASE phase = "h1" -> /\ phase' = "h4" /\ need' = 4 /\ UNCHANGED <<rec, base, out>>
         [] phase = "h4" -> IF bodies[rec] = 0
                            THEN /\ out' = out + 1 /\ rec' = rec + 1 /\ need' = 1 /\ base' = base + HDR
                                 /\ phase' = IF rec = Len(bodies) THEN "done" ELSE "h1"
                            ELSE /\ phase' = "body" /\ need' = bodies[rec] /\ UNCHANGED <<rec, base, out>>
         [] phase = "body" -> /\ out' = out + 1 /\ rec' = rec + 1 /\ need' = 1 /\ base' = base + HDR + bodies[rec]
                              /\ phase' = IF rec = Len(bodies) THEN "done" ELSE "h1"

\* BufferedSocket.recv(need): serve from the buffer if it is not empty ...
ServeFromBuffer ==
  /\ phase # "done" /\ bsbuf > 0
  /\ LET k == Min(need, bsbuf) IN
       /\ bsbuf' = bsbuf - k
       /\ Advance(bsbuf - k, need - k)
  /\ lastWB' = FALSE /\ yields' = 0
  /\ UNCHANGED <<bodies, arrived, taken, nwb>>

\* ... otherwise one OS recv(max(ReadAhead, need)); the OS returns 1..asked bytes of what arrived
OSRecv ==
  /\ phase # "done" /\ bsbuf = 0 /\ arrived > taken
  /\ \E got \in 1..Min(Max(ReadAhead, need), arrived - taken) :
       LET k == Min(need, got) IN
       /\ taken' = taken + got
       /\ bsbuf' = got - k
       /\ Advance(got - k, need - k)
  /\ lastWB' = FALSE /\ yields' = 0
  /\ UNCHANGED <<bodies, arrived, nwb>>

\* would-block: genuine (nothing arrived) or spurious (bounded)
OSRecvWB ==
  /\ phase # "done" /\ bsbuf = 0 /\ ~lastWB
  /\ (arrived = taken \/ nwb < MaxWB)
  /\ nwb' = IF arrived > taken THEN nwb + 1 ELSE nwb
  /\ lastWB' = TRUE /\ yields' = 0
  /\ UNCHANGED <<bodies, arrived, taken, bsbuf, phase, need, rec, base, out>>

\* the generator yields 0 to its caller and is resumed later
Yield0 == /\ lastWB /\ yields' = 1 /\ lastWB' = FALSE
          /\ UNCHANGED <<bodies, arrived, taken, bsbuf, phase, need, rec, base, out, nwb>>

RNext == Arrive \/ ServeFromBuffer \/ OSRecv \/ OSRecvWB \/ Yield0
RSpec(b) == RInitWith(b) /\ [][RNext]_rvars

\* ---- properties of the reader
\* every byte taken from the socket is either buffered, part of the pending request, or in a delivered record
ConsumedBefore == base +
   (CASE phase = "h1" -> 1 - need [] phase = "h4" -> 1 + 4 - need
      [] phase = "body" -> HDR + bodies[rec] - need [] OTHER -> 0)
NoByteLostOrDup == taken = bsbuf + (IF phase = "done" THEN base ELSE ConsumedBefore)
BaseIsTotal == base = Total(bodies, rec - 1)      \* checked in model checking only
\* records are handed upward exactly at record boundaries of the stream, in order
StreamIndependence == out = (IF phase = "done" THEN Len(bodies) ELSE rec - 1)
\* when the whole stream has arrived the reader can always finish (no lost wake-up): checked as
\* "done is reachable from every state" by the absence of deadlock before done
RDone == phase = "done" => out = Len(bodies) /\ taken = StreamLen
NoStuck == (phase # "done" /\ arrived = StreamLen) => (ENABLED ServeFromBuffer \/ ENABLED OSRecv \/ ENABLED Yield0 \/ ENABLED OSRecvWB)
\* a 0 is yielded only directly after a would-block recv
YieldDiscipline == [][yields' > yields => lastWB]_rvars
\* every resume performs a socket call before the next yield: no spinning
NoSpin == [][yields = 1 => yields' = 0 \/ UNCHANGED <<bodies, taken, bsbuf, phase, need, rec, base, out, lastWB, yields, nwb>>]_rvars
=============================================================================
