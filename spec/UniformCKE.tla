----------------------------- MODULE UniformCKE -----------------------------
(***************************************************************************)
(* C11 (b): a server performing RSA key exchange behaves identically on    *)
(* the wire - same records, same alert, at the same point - for every      *)
(* malformed encrypted premaster secret, whatever the malformation; the     *)
(* failure surfaces only when the client's Finished cannot be verified.     *)
(*                                                                         *)
(* A trace is the product of one handshake per defect class against the     *)
(* same server (same keys, same randomness):                                *)
(*   CFG {ver, finpos}   finpos = number of records the server consumes up  *)
(*                       to and including the client's Finished             *)
(*   OBS {cls, kind, recs, result, alert, consumed}                         *)
(*        kind "valid" | "bad" (any ciphertext that is not a well-formed     *)
(*        48-byte premaster with the right version, incl. publicly invalid)  *)
(*        recs = [[content type, length] ...] the server put on the wire     *)
(*        after the ClientKeyExchange arrived                                *)
(***************************************************************************)
EXTENDS Naturals, Sequences, FiniteSets, TLC

VARIABLES ref,      \* observation of the first malformed class (the reference)
          nobs
uvars == <<ref, nobs>>
None == [cls |-> "-"]

UInit == ref = None /\ nobs = 0

BAD_RECORD_MAC == 20
\* what the property demands of one observation, given the reference
Uniform(o, finpos) ==
  IF o.kind = "valid"
  THEN o.result = "ok"                                      \* the genuine message is decrypted to itself
  ELSE /\ o.result = "LocalAlert"                                \* a fatal alert of the server ...
       \* ... identical in every respect to the reference malformed class: same records, same alert,
       \* same point.  (Normally bad_record_mac at the client's Finished; with SSLv3 client
       \* authentication the CertificateVerify hash covers the master secret, so the uniform failure
       \* point is that message - the property demands uniformity, not a particular point.)
       /\ (ref # None => (o.recs = ref.recs /\ o.alert = ref.alert /\ o.consumed = ref.consumed))
       /\ o.consumed <= finpos

Observe(o, finpos) ==
  /\ Uniform(o, finpos)
  /\ ref' = IF o.kind = "bad" /\ ref = None THEN o ELSE ref
  /\ nobs' = nobs + 1
=============================================================================
