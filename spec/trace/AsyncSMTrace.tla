---------------------------- MODULE AsyncSMTrace ----------------------------
(* trace of one endpoint driven through AsyncStateMachine by a select-style   *)
(* loop: CFG {outcomeEq, dataEq}, then one ASM event per call into the        *)
(* machine: {call: "set:hs|write|close" | "inRead" | "inWrite", op, res, exc} *)
(* with (op, res) read from the object after the call.                        *)
EXTENDS AsyncSM, Json, IOUtils, TLCExt, Sequences, FiniteSets
VARIABLES tid, l
Traces == JsonDeserialize(IOEnv.TRACE_FILE)
N == Len(Traces)
T == Traces[tid]
E == T[l]
\* the run under the schedule gave the same results as the unconstrained run
TraceInit == tid \in 1..N /\ l = 2 /\ Init /\ T[1].outcomeEq /\ T[1].dataEq
Logged == op' = E.op /\ res' = E.res
Step == CASE E.call = "set:hs" -> SetOp("hs") [] E.call = "set:write" -> SetOp("write") [] E.call = "set:close" -> SetOp("close")
          [] E.call = "inRead" -> InRead [] E.call = "inWrite" -> InWrite [] OTHER -> FALSE
TraceNext == /\ l <= Len(T) /\ E.ev = "ASM" /\ l' = l + 1 /\ UNCHANGED tid
             /\ Logged
             /\ IF E.exc = "" THEN Step ELSE Fail
             \* an AssertionError is the machine reporting its own inconsistency: never admissible
             /\ E.exc # "AssertionError"
             /\ Consistent'
Mark == IF l - 1 > TLCGet(tid) THEN TLCSet(tid, l - 1) ELSE TRUE
ASSUME \A i \in 1..N : TLCSet(i, 0)
Rejected == { i \in 1..N : TLCGet(i) # Len(Traces[i]) }
Post == /\ \A i \in Rejected : PrintT(<<"REJ", i, TLCGet(i)>>)
        /\ PrintT(<<"RESULT", N, Cardinality(Rejected)>>)
=============================================================================
