---------------------------- MODULE BaseDBTrace ----------------------------
(***************************************************************************)
(* Batch trace validation of histories recorded from a REAL                *)
(* tlslite.verifierdb.VerifierDB (BaseDB) shared by threads that run under *)
(* the controlled scheduler (property C18).  The reference is a map        *)
(* user -> entry (entries are tokens; 0 = no entry).                       *)
(*                                                                         *)
(*   CFG  {users: [..]}                                                    *)
(*   call {th, op, u, v, ret}  op in get|set|del|in|keys; v = entry token  *)
(*                             stored (set); ret = index of the ret event  *)
(*   acq {th} / rel {th}       cooperative db.lock                         *)
(*   acc  {th}                 the underlying self.db mapping was accessed *)
(*   ret  {th, res, v, keys}   res = "ok" | "KeyError" (documented: no     *)
(*                             such user) | "true" | "false" | "err"       *)
(* Each operation takes effect at one instant between call and ret, where  *)
(* no other thread holds the lock (Lin); LockDiscipline: acc only while    *)
(* holding the lock.                                                       *)
(***************************************************************************)
EXTENDS Integers, Sequences, FiniteSets, TLC, TLCExt, Json, IOUtils

VARIABLES tid, l, ref, holder, pend
vars == <<tid, l, ref, holder, pend>>

Traces == JsonDeserialize(IOEnv.TRACE_FILE)
NT == Len(Traces)
T == Traces[tid]
E == T[l]
Thr == 0..8
UsersOf(i) == { Traces[i][1].users[k] : k \in 1..Len(Traces[i][1].users) }

TraceInit ==
  /\ tid \in 1..NT
  /\ l = 2
  /\ ref = [u \in UsersOf(tid) |-> 0]
  /\ holder = -1
  /\ pend = [x \in Thr |-> 0]

IsEvent(e) == l <= Len(T) /\ E.ev = e /\ l' = l + 1 /\ UNCHANGED tid
SeqSet(s) == { s[k] : k \in 1..Len(s) }

Apply(c, r) ==
  /\ r.res # "err"
  /\ CASE c.op = "get" -> /\ IF ref[c.u] = 0 THEN r.res = "KeyError"
                                             ELSE r.res = "ok" /\ r.v = ref[c.u]
                          /\ UNCHANGED ref
       [] c.op = "set" -> r.res = "ok" /\ ref' = [ref EXCEPT ![c.u] = c.v]
       [] c.op = "del" -> /\ r.res = IF ref[c.u] = 0 THEN "KeyError" ELSE "ok"
                          /\ ref' = [ref EXCEPT ![c.u] = 0]
       [] c.op = "in" -> r.res = (IF ref[c.u] # 0 THEN "true" ELSE "false") /\ UNCHANGED ref
       [] c.op = "keys" -> /\ r.res = "ok"
                           /\ SeqSet(r.keys) = { u \in DOMAIN ref : ref[u] # 0 }
                           /\ Len(r.keys) = Cardinality(SeqSet(r.keys))
                           /\ UNCHANGED ref
       [] OTHER -> FALSE

TCall == IsEvent("call") /\ pend[E.th] = 0 /\ pend' = [pend EXCEPT ![E.th] = l]
         /\ UNCHANGED <<ref, holder>>
Lin(x) == /\ pend[x] > 0
          /\ holder \in {-1, x}
          /\ Apply(T[pend[x]], T[T[pend[x]].ret])
          /\ pend' = [pend EXCEPT ![x] = -pend[x]]
          /\ UNCHANGED <<tid, l, holder>>
TRet == IsEvent("ret") /\ pend[E.th] < 0 /\ pend' = [pend EXCEPT ![E.th] = 0]
        /\ UNCHANGED <<ref, holder>>
TAcq == IsEvent("acq") /\ holder = -1 /\ holder' = E.th /\ UNCHANGED <<ref, pend>>
TRel == IsEvent("rel") /\ holder = E.th /\ holder' = -1 /\ UNCHANGED <<ref, pend>>
LockDiscipline == holder = E.th
TAcc == IsEvent("acc") /\ LockDiscipline /\ UNCHANGED <<ref, holder, pend>>

TraceNext == TCall \/ TRet \/ TAcq \/ TRel \/ TAcc \/ \E x \in Thr : Lin(x)

Mark == IF l - 1 > TLCGet(tid) THEN TLCSet(tid, l - 1) ELSE TRUE
ASSUME \A i \in 1..NT : TLCSet(i, 0)
Rejected == { i \in 1..NT : TLCGet(i) # Len(Traces[i]) }
Post == /\ \A i \in Rejected : PrintT(<<"REJ", i, TLCGet(i)>>)
        /\ PrintT(<<"RESULT", NT, Cardinality(Rejected)>>)
=============================================================================
