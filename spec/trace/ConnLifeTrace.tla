--------------------------- MODULE ConnLifeTrace ---------------------------
(* Batch trace validation for ConnLife.tla.  Each trace:                   *)
(*   CFG  {closeSocket, ignoreAbrupt}                                      *)
(*   CALL {api, env, arrive, res, n, closed, sess, desc, wantdesc, match}  *)
(* (+ refs = _refCount after the call)                                     *)
(* api in handshake/read/write/close/makefile (close = the connection's or *)
(* a file object's; read/write may go through a file object); env = what the harness made the      *)
(* peer/transport do during the call; res = abstract result class;         *)
(* closed / sess = projection of the connection after the call.            *)
EXTENDS ConnLife, Json, IOUtils, TLCExt

VARIABLES tid, l
Traces == JsonDeserialize(IOEnv.TRACE_FILE)
N == Len(Traces)
T == Traces[tid]
E == T[l]

TraceInit == /\ tid \in 1..N /\ l = 2
             /\ InitWith([closeSocket |-> Traces[tid][1].closeSocket, ignoreAbrupt |-> Traces[tid][1].ignoreAbrupt])
             /\ last = Last0

\* the logged projection must be the state the specification reaches
ProjMatches == /\ E.closed = (phase' # "open")
               /\ E.sess = sess'
               /\ E.refs = refs'
\* a fatal alert from the peer is surfaced with the peer's description; returned bytes are the right ones
Faithful == /\ (E.res \in {"RemoteAlertFatal", "RemoteAlertWarning"} => E.desc = E.wantdesc)
            /\ E.match
            \* a handshake message written straight to the socket (not as part of a buffered flight) that fails: the
            \* library looks for the peer's alert and raises it ("send failure during handshake looks for peer alert")
            /\ (E.env = "fatalsend" /\ ~E.buffered => E.res = "RemoteAlertFatal")

Sib == /\ l <= Len(T) /\ E.ev = "SIB" /\ l' = l + 1 /\ UNCHANGED tid
       /\ SiblingFails /\ Last("sibling", "-", "-")
       /\ E.sess = sess'
Step == /\ l <= Len(T) /\ E.ev = "CALL" /\ l' = l + 1 /\ UNCHANGED tid
        /\ CASE E.api = "handshake" -> Handshake(E.env, E.res) /\ RefsAfter("handshake")
             [] E.api = "read"      -> Read(E.env, E.arrive, E.res, E.n) /\ RefsAfter("read")
             [] E.api = "write"     -> Write(E.env, E.res) /\ RefsAfter("write")
             [] E.api = "close"     -> CloseRef(E.env, E.res)          \* the connection's close() or a file object's
             [] E.api = "makefile"  -> Makefile(E.res)
             [] OTHER -> FALSE
        /\ Last(E.api, E.env, E.res)
        /\ ProjMatches /\ Faithful
InvAll == TruncationNotEOF /\ NoResumeAfterFatal /\ NoCompleteAfterFault /\ FatalAlertSurfaced /\ WriteAfterCloseRaises
          /\ OpenHasHolder /\ LastCloseCloses
TraceNext == (Step \/ Sib) /\ InvAll'

Mark == IF l - 1 > TLCGet(tid) THEN TLCSet(tid, l - 1) ELSE TRUE
ASSUME \A i \in 1..N : TLCSet(i, 0)
Rejected == { i \in 1..N : TLCGet(i) # Len(Traces[i]) }
Post == /\ \A i \in Rejected : PrintT(<<"REJ", i, TLCGet(i)>>)
        /\ PrintT(<<"RESULT", N, Cardinality(Rejected)>>)
=============================================================================
