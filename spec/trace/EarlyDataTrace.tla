--------------------------- MODULE EarlyDataTrace ---------------------------
(* trace = CFG {max}, then the items presented to a live TLS 1.3 server after the ClientHello:                *)
(*   {ev: "g", n, dead} | {ev: "ccs", dead} | {ev: "gen", dead}   dead = the server has aborted after this item *)
(* The actions are those of EarlyData.tla with Max = the max_early_data of the trace (a per-trace value cannot   *)
(* be substituted for a CONSTANT, so they are restated here; EarlyData.tla is the model-checked original).       *)
EXTENDS Naturals, Sequences, FiniteSets, TLC, TLCExt, Json, IOUtils
VARIABLES tid, l, tol, skipped, dead
Traces == JsonDeserialize(IOEnv.TRACE_FILE)
N == Len(Traces)
T == Traces[tid]
E == T[l]
Max == T[1].max
Garbage(n) == /\ ~dead
              /\ IF tol /\ skipped + n < Max
                 THEN skipped' = skipped + n /\ dead' = FALSE /\ UNCHANGED tol
                 ELSE dead' = TRUE /\ UNCHANGED <<tol, skipped>>
CCS == ~dead /\ IF tol THEN UNCHANGED <<tol, skipped, dead>> ELSE dead' = TRUE /\ UNCHANGED <<tol, skipped>>
Genuine == ~dead /\ tol' = FALSE /\ UNCHANGED <<skipped, dead>>
TraceInit == tid \in 1..N /\ l = 2 /\ tol = Traces[tid][1].offered /\ skipped = 0 /\ dead = FALSE
TraceNext == /\ l <= Len(T) /\ l' = l + 1 /\ UNCHANGED tid
             /\ CASE E.ev = "g" -> Garbage(E.n) [] E.ev = "ccs" -> CCS [] E.ev = "gen" -> Genuine [] OTHER -> FALSE
             /\ dead' = E.dead
             /\ skipped' < Max
Mark == IF l - 1 > TLCGet(tid) THEN TLCSet(tid, l - 1) ELSE TRUE
ASSUME \A i \in 1..N : TLCSet(i, 0)
Rejected == { i \in 1..N : TLCGet(i) # Len(Traces[i]) }
Post == /\ \A i \in Rejected : PrintT(<<"REJ", i, TLCGet(i)>>)
        /\ PrintT(<<"RESULT", N, Cardinality(Rejected)>>)
=============================================================================
