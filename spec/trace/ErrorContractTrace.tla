------------------------- MODULE ErrorContractTrace -------------------------
(* trace = CFG {...} followed by OBS events, one per API call observed        *)
EXTENDS ErrorContract, Json, IOUtils, TLCExt
VARIABLES tid, l
Traces == JsonDeserialize(IOEnv.TRACE_FILE)
N == Len(Traces)
T == Traces[tid]
E == T[l]
TraceInit == tid \in 1..N /\ l = 2
TraceNext == /\ l <= Len(T) /\ l' = l + 1 /\ UNCHANGED tid
             /\ \/ E.ev = "OBS" /\ Contract(E)
                \/ E.ev = "LEAF" /\ LeafContract(E)
Mark == IF l - 1 > TLCGet(tid) THEN TLCSet(tid, l - 1) ELSE TRUE
ASSUME \A i \in 1..N : TLCSet(i, 0)
Rejected == { i \in 1..N : TLCGet(i) # Len(Traces[i]) }
Post == /\ \A i \in Rejected : PrintT(<<"REJ", i, TLCGet(i)>>)
        /\ PrintT(<<"RESULT", N, Cardinality(Rejected)>>)
=============================================================================
