-------------------------- MODULE NegotiationTrace --------------------------
(* one trace per settings pair:                                              *)
(*   CFG {cs, ss, certKey, candidates: [token seqs]}                         *)
(*   RES {ok, c: view, s: view, cfail, sfail}                                *)
EXTENDS Negotiation, Json, IOUtils, TLCExt
VARIABLES tid, l
Traces == JsonDeserialize(IOEnv.TRACE_FILE)
N == Len(Traces)
T == Traces[tid]
E == T[l]
Norm(st) == [vers |-> {st.vers[i] : i \in 1..Len(st.vers)},
             ciphers |-> {st.ciphers[i] : i \in 1..Len(st.ciphers)},
             macs |-> {st.macs[i] : i \in 1..Len(st.macs)},
             kexs |-> {st.kexs[i] : i \in 1..Len(st.kexs)},
             curves |-> {st.curves[i] : i \in 1..Len(st.curves)},
             dhGroups |-> {st.dhGroups[i] : i \in 1..Len(st.dhGroups)},
             rsaHashes |-> {st.rsaHashes[i] : i \in 1..Len(st.rsaHashes)},
             ecdsaHashes |-> {st.ecdsaHashes[i] : i \in 1..Len(st.ecdsaHashes)},
             rsaSchemes |-> {st.rsaSchemes[i] : i \in 1..Len(st.rsaSchemes)},
             minKey |-> st.minKey, maxKey |-> st.maxKey, etm |-> st.etm, ems |-> st.ems, reqEms |-> st.reqEms,
             rsl |-> st.rsl, alpn |-> st.alpn,
             pskModes |-> {st.pskModes[i] : i \in 1..Len(st.pskModes)}, dhPlain |-> st.dhPlain]
CS == Norm(T[1].cs)
SS == Norm(T[1].ss)
TraceInit == tid \in 1..N /\ l = 2
\* a handshake that completes on both sides is an admissible outcome for both policies;
\* one that does not complete failed on both sides with an exception (never success on one side only);
\* settings that MUST connect did connect
TraceNext ==
  /\ l <= Len(T) /\ E.ev = "RES" /\ l' = l + 1 /\ UNCHANGED tid
  /\ IF E.ok THEN Outcome(CS, SS, E.c, E.s)
     ELSE /\ E.cfail /\ E.sfail
          /\ ~MustConnectCA(CS, SS, T[1].certKey, T[1].certBits, T[1].certCurve, T[1].candidates, T[1].cltBits)
Mark == IF l - 1 > TLCGet(tid) THEN TLCSet(tid, l - 1) ELSE TRUE
ASSUME \A i \in 1..N : TLCSet(i, 0)
Rejected == { i \in 1..N : TLCGet(i) # Len(Traces[i]) }
Post == /\ \A i \in Rejected : PrintT(<<"REJ", i, TLCGet(i)>>)
        /\ PrintT(<<"RESULT", N, Cardinality(Rejected)>>)
=============================================================================
