---------------------------- MODULE PostHSTrace ----------------------------
(* Batch trace validation for PostHS.tla (which extends Record.tla).       *)
(* Events = those of RecordTrace.tla plus                                  *)
(*   M    {d, t, a, b}   the sender of d is about to send a message of     *)
(*                       kind t ("ku" a=request flag; "hbreq"/"hbresp"     *)
(*                       a=payload hash, b=payload length; "nst"; "cr";    *)
(*                       "phacert"; "phacv"; "phafin"; "alert")            *)
(*   HSDONE               both handshakes returned                          *)
(*   CC                   the server's session shows a new client chain     *)
(*   END                  scenario over, both sides idle                    *)
(*   BAD  {kind, fatal, closed, alert, echoed, alive, recorded}  outcome of *)
(*        an adversarial control message (trace ends there)                 *)
EXTENDS PostHS, Json, IOUtils, TLCExt

VARIABLES tid, l, nextTok      \* nextTok: [Dir -> token] announced by M for the next record
Traces == JsonDeserialize(IOEnv.TRACE_FILE)
N == Len(Traces)
T == Traces[tid]
E == T[l]

NegLimit(c, d) ==
  LET rsl == IF d = "c2s" THEN c.srsl ELSE c.crsl IN
  IF c.ver > 0 /\ c.crsl > 0 /\ c.srsl > 0
  THEN Min(MaxPlain, rsl - (IF c.ver = 4 THEN 1 ELSE 0)) ELSE MaxPlain
UserLimit(c, d) == IF d = "c2s" THEN c.cuser ELSE c.suser

TraceInit ==
  /\ tid \in 1..N /\ l = 2
  /\ LET c == Traces[tid][1] IN
       InitWith([split |-> c.cbc /\ c.ver <= 1, tls13 |-> c.ver = 4,
                 lim |-> [d \in Dir |-> Min(UserLimit(c, d), NegLimit(c, d))],
                 neg |-> [d \in Dir |-> NegLimit(c, d)]])
  /\ PInit
  /\ nextTok = [d \in Dir |-> Plain]

IsEvent(e) == l <= Len(T) /\ E.ev = e /\ l' = l + 1 /\ UNCHANGED tid
SeqMatchesW == E.prot => E.seq = wr[E.d].seq
SeqMatchesR == E.prot => E.seq = rd[E.d].seq
AcceptedMatchesLog == LET a == acc'[E.d][Len(acc'[E.d])] IN a.ct = E.ct /\ a.plen = E.plen
\* fewer than `min` bytes only at a close, and then everything already received is returned (nothing is lost)
ReadBounds == E.match /\ (E.max >= 0 => E.len <= E.max)
              /\ (E.len >= E.min \/ (E.closed /\ (E.len = rbuf[E.d] \/ (E.max >= 0 /\ E.len = E.max))))
Keep == UNCHANGED pvars

TM  == IsEvent("M") /\ nextTok' = [nextTok EXCEPT ![E.d] = Tk(E.t, E.a, E.b)] /\ UNCHANGED allvars
TW  == IsEvent("W")  /\ BeginWrite(E.d, E.n) /\ Keep /\ UNCHANGED nextTok
TWE == IsEvent("WE") /\ EndWrite(E.d) /\ Keep /\ UNCHANGED nextTok
TS  == IsEvent("S")  /\ SeqMatchesW
                     /\ PSend(E.d, E.ct, E.plen, IF E.ct = APP THEN Tk("app", 0, 0) ELSE nextTok[E.d])
                     /\ nextTok' = [nextTok EXCEPT ![E.d] = Plain]
TR  == IsEvent("R")  /\ SeqMatchesR /\ PAccept(E.d) /\ AcceptedMatchesLog /\ UNCHANGED nextTok
TRD == IsEvent("RD") /\ ReadBounds /\ Read(E.d, E.len) /\ Keep /\ UNCHANGED nextTok
TKW == IsEvent("KW") /\ PKeyChangeW(E.d) /\ UNCHANGED nextTok
TKR == IsEvent("KR") /\ PKeyChangeR(E.d) /\ UNCHANGED nextTok
THD == IsEvent("HSDONE") /\ HandshakeDone /\ UNCHANGED nextTok
TCC == IsEvent("CC") /\ RecordClientCert /\ UNCHANGED nextTok
TEND == IsEvent("END") /\ Quiescent /\ UNCHANGED allvars /\ UNCHANGED nextTok

TBAD == IsEvent("BAD") /\ BadControl(E.kind, E) /\ UNCHANGED nextTok
TraceStep == TBAD \/ TM \/ TW \/ TWE \/ TS \/ TR \/ TRD \/ TKW \/ TKR \/ THD \/ TCC \/ TEND
InvAll == AcceptOnlyGenuineNext /\ DeliveredIsPrefix /\ NoOverLimit /\ FragSound
TraceNext == TraceStep /\ InvAll'

Mark == IF l - 1 > TLCGet(tid) THEN TLCSet(tid, l - 1) ELSE TRUE
ASSUME \A i \in 1..N : TLCSet(i, 0)
Rejected == { i \in 1..N : TLCGet(i) # Len(Traces[i]) }
Post == /\ \A i \in Rejected : PrintT(<<"REJ", i, TLCGet(i)>>)
        /\ PrintT(<<"RESULT", N, Cardinality(Rejected)>>)
=============================================================================
