---------------------------- MODULE RSAKeyTrace ----------------------------
(***************************************************************************)
(* Batch trace validation of private-key operations that real threads ran  *)
(* on ONE shared tlslite Python_RSAKey under the controlled scheduler      *)
(* (property C18).  TRACE_FILE = JSON list of traces.                      *)
(*                                                                         *)
(*   CFG  {toy, n, e, d}     toy = TRUE: a key small enough for TLC's      *)
(*                           integers (n*n < 2^31); then TLC itself        *)
(*                           computes m^d mod n and checks the blinding    *)
(*                           pair.  toy = FALSE: the key of                *)
(*                           tests/serverX509Key.pem; numbers are lists of *)
(*                           16-bit limbs and `exp` = pow(m, d, n) from    *)
(*                           Python's builtin pow (independent leaf).      *)
(*   call {th, m}            _rawPrivateKeyOp(m) entered (via sign/decrypt)*)
(*   acq {th} / rel {th}     cooperative key._lock acquired / released     *)
(*   acc  {th, attr, w, val} key.blinder / key.unblinder read (w = 0) or   *)
(*                           written (w = 1); val only for toy keys        *)
(*   ret  {th, res, out, exp} res = "ok" | "err"; out = returned number    *)
(*   sret {m, res, out, exp} un-instrumented stress run (no order, no lock *)
(*                           events): result only                          *)
(* Rules: ResultCorrect  out = m^d mod n  (toy: computed here; else = exp) *)
(*        PairConsistent the pair (blinder, unblinder) the thread read for *)
(*                       this operation satisfies b * ub^e = 1 (mod n)     *)
(*        LockDiscipline blinder/unblinder touched only by the lock holder *)
(***************************************************************************)
EXTENDS Integers, Sequences, FiniteSets, TLC, TLCExt, Json, IOUtils

VARIABLES tid, l,
          holder,  \* thread holding key._lock, -1 = free
          cur,     \* [thread -> index of its open call event, 0 = none]
          rb, rub  \* [thread -> last value read from key.blinder / key.unblinder in this op, -1 = none]
vars == <<tid, l, holder, cur, rb, rub>>

Traces == JsonDeserialize(IOEnv.TRACE_FILE)
NT == Len(Traces)
T == Traces[tid]
E == T[l]
C == T[1]
Thr == 0..8

\* square-and-multiply (recursion depth log2 k); all operands < n, n*n < 2^31
RECURSIVE PowMod(_, _, _)
PowMod(a, k, n) == IF k = 0 THEN 1 % n
                   ELSE LET h == PowMod(a, k \div 2, n)
                            sq == (h * h) % n
                        IN IF k % 2 = 1 THEN (sq * (a % n)) % n ELSE sq

TraceInit ==
  /\ tid \in 1..NT
  /\ l = 2
  /\ holder = -1
  /\ cur = [x \in Thr |-> 0]
  /\ rb = [x \in Thr |-> -1]
  /\ rub = [x \in Thr |-> -1]

IsEvent(e) == l <= Len(T) /\ E.ev = e /\ l' = l + 1 /\ UNCHANGED tid

ResultCorrect(m, r) ==
  /\ r.res = "ok"
  /\ IF C.toy THEN r.out = PowMod(m, C.d, C.n) ELSE r.out = r.exp
PairConsistent(x) ==
  C.toy => /\ rb[x] >= 0 /\ rub[x] >= 0
           /\ (rb[x] * PowMod(rub[x], C.e, C.n)) % C.n = 1
LockDiscipline == holder = E.th

TCall == IsEvent("call") /\ cur[E.th] = 0
         /\ cur' = [cur EXCEPT ![E.th] = l]
         /\ rb' = [rb EXCEPT ![E.th] = -1] /\ rub' = [rub EXCEPT ![E.th] = -1]
         /\ UNCHANGED holder
TAcq == IsEvent("acq") /\ holder = -1 /\ holder' = E.th /\ UNCHANGED <<cur, rb, rub>>
TRel == IsEvent("rel") /\ holder = E.th /\ holder' = -1 /\ UNCHANGED <<cur, rb, rub>>
TAcc == /\ IsEvent("acc") /\ LockDiscipline
        /\ IF C.toy /\ E.w = 0 /\ E.attr = "blinder"
           THEN rb' = [rb EXCEPT ![E.th] = E.val] /\ UNCHANGED rub
           ELSE IF C.toy /\ E.w = 0 /\ E.attr = "unblinder"
           THEN rub' = [rub EXCEPT ![E.th] = E.val] /\ UNCHANGED rb
           ELSE UNCHANGED <<rb, rub>>
        /\ UNCHANGED <<holder, cur>>
TRet == /\ IsEvent("ret") /\ cur[E.th] > 0
        /\ ResultCorrect(T[cur[E.th]].m, E)
        /\ PairConsistent(E.th)
        /\ cur' = [cur EXCEPT ![E.th] = 0]
        /\ UNCHANGED <<holder, rb, rub>>
TSRet == IsEvent("sret") /\ ResultCorrect(E.m, E) /\ UNCHANGED <<holder, cur, rb, rub>>

\* dec {th, out, exp}: a whole decrypt() call returned; decrypt is a FUNCTION of (key, ciphertext) - also for invalid
\* padding, where the result is the implicit-rejection message - so every call returns what a lone caller gets (exp)
TDec == IsEvent("dec") /\ E.out = E.exp /\ UNCHANGED <<holder, cur, rb, rub>>

TraceNext == TCall \/ TAcq \/ TRel \/ TAcc \/ TRet \/ TSRet \/ TDec

Mark == IF l - 1 > TLCGet(tid) THEN TLCSet(tid, l - 1) ELSE TRUE
ASSUME \A i \in 1..NT : TLCSet(i, 0)
Rejected == { i \in 1..NT : TLCGet(i) # Len(Traces[i]) }
Post == /\ \A i \in Rejected : PrintT(<<"REJ", i, TLCGet(i)>>)
        /\ PrintT(<<"RESULT", NT, Cardinality(Rejected)>>)
=============================================================================
