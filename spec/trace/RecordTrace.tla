---------------------------- MODULE RecordTrace ----------------------------
(* Batch trace validation for Record.tla (pattern B).                      *)
(* TRACE_FILE holds a JSON list of traces; each trace is a list of events  *)
(* recorded from two live tlslite-ng endpoints (harness/tracer.py):        *)
(*   CFG  {ver, cbc, crsl, srsl, cuser, suser}  first event: version 0..4 *)
(*        (SSLv3..TLS1.3), CBC suite?, record_size_limit settings (0 =    *)
(*        extension not sent), user-set recordSize of each endpoint       *)
(*   W    {d, n}            write(n bytes) called by the sender of d       *)
(*   S    {d, ct, plen, seq, prot, inner}  RecordLayer.sendRecord          *)
(*   WE   {d}               write() returned                               *)
(*   R    {d, ct, plen, seq, prot}         RecordLayer.recvRecord returned *)
(*   RE   {d}               recvRecord raised (record rejected)            *)
(*   RD   {d, max, min, len, match, closed}   read() returned len bytes    *)
(*   KW / KR {d}            write / read connection state replaced         *)
(*   A    {op, d, i, p}     adversary operation applied by the harness     *)
(*   TRY  {d, items, outs}  receiver shown items, state restored afterwards*)
(*   FATAL{d, closed, resumable, alertLevel, alertDesc, delivered}         *)
(***************************************************************************)
EXTENDS Record, Json, IOUtils, TLCExt

VARIABLES tid, l
tvars == <<vars, tid, l>>

Traces == JsonDeserialize(IOEnv.TRACE_FILE)
N == Len(Traces)
T == Traces[tid]
E == T[l]

\* RFC 8449 as the specification reads it: the limit a sender must respect is
\* the value the *receiver* advertised (minus the content-type byte in TLS 1.3),
\* capped at 2^14; it applies only when both sides sent the extension (never in
\* SSLv3, which has no extensions).  The user-set recordSize caps it further.
NegLimit(c, d) ==
  LET rsl == IF d = "c2s" THEN c.srsl ELSE c.crsl IN
  IF c.ver > 0 /\ c.crsl > 0 /\ c.srsl > 0
  THEN Min(MaxPlain, rsl - (IF c.ver = 4 THEN 1 ELSE 0)) ELSE MaxPlain
UserLimit(c, d) == IF d = "c2s" THEN c.cuser ELSE c.suser

TraceInit ==
  /\ tid \in 1..N
  /\ l = 2
  /\ LET c == Traces[tid][1] IN
       InitWith([split |-> c.cbc /\ c.ver <= 1, tls13 |-> c.ver = 4,
                 lim |-> [d \in Dir |-> Min(UserLimit(c, d), NegLimit(c, d))],
                 neg |-> [d \in Dir |-> NegLimit(c, d)]])

IsEvent(e) == l <= Len(T) /\ E.ev = e /\ l' = l + 1 /\ UNCHANGED tid

\* ---- named clauses (so that a rejection can be attributed)
SeqMatchesW == E.prot => E.seq = wr[E.d].seq
SeqMatchesR == E.prot => E.seq = rd[E.d].seq
InnerOK == (cfg.tls13 /\ E.prot /\ E.ct # CCS) =>
             /\ E.inner >= E.plen + 1
             /\ E.inner <= (IF E.ct = APP THEN cfg.neg[E.d] ELSE MaxPlain) + 1
AcceptedMatchesLog == LET a == acc'[E.d][Len(acc'[E.d])] IN a.ct = E.ct /\ a.plen = E.plen
ReadBounds == /\ E.match
              /\ (E.max >= 0 => E.len <= E.max)
              \* fewer than `min` bytes only because the connection was closed - and then nothing that was
              \* already received may be lost: the read returns everything buffered (up to max)
              /\ (E.len >= E.min \/ (E.closed /\ (E.len = rbuf[E.d] \/ (E.max >= 0 /\ E.len = E.max))))

TW  == IsEvent("W")  /\ BeginWrite(E.d, E.n)
TS  == IsEvent("S")  /\ SeqMatchesW /\ InnerOK
                     /\ IF E.ct = APP THEN SendApp(E.d, E.plen) ELSE SendCtl(E.d, E.ct, E.plen)
TWE == IsEvent("WE") /\ EndWrite(E.d)
TR  == IsEvent("R")  /\ \/ SeqMatchesR /\ Accept(E.d) /\ AcceptedMatchesLog
                        \/ E.ct = CCS /\ PassPlainCCSAfterHandshake(E.d)
TRE == IsEvent("RE") /\ Reject(E.d)
TRD == IsEvent("RD") /\ ReadBounds /\ Read(E.d, E.len)
TKW == IsEvent("KW") /\ KeyChangeW(E.d)
TKR == IsEvent("KR") /\ KeyChangeR(E.d)
TA  == IsEvent("A")  /\ natk' = natk + 1 /\ AtkFrame
                     /\ CASE E.op = "flip"    -> AtkFlipAt(E.d, E.i)
                          [] E.op = "drop"    -> AtkDropAt(E.d, E.i)
                          [] E.op = "dup"     -> AtkDupAt(E.d, E.i)
                          [] E.op = "swap"    -> AtkSwapAt(E.d, E.i)
                          [] E.op = "reflect" -> AtkReflectAt(E.d, E.i, E.p)
                          [] E.op = "old"     -> AtkOldAt(E.d, E.i, E.p)
                          [] E.op = "ccs"     -> AtkCCSAt(E.d, E.p)
                          [] E.op = "forge"   -> AtkForgeAt(E.d, E.p)
                          [] OTHER -> FALSE

\* TRY {d, items: [[k, idx, dir]...], outs: ["acc"|"rej"...]}  hypothetical presentation
Items(e) == [j \in 1..Len(e.items) |-> [k |-> e.items[j][1], idx |-> e.items[j][2], dir |-> e.items[j][3]]]
TTRY == IsEvent("TRY") /\ Try(E.d, Items(E), E.outs)
\* FATAL {d, closed, resumable, alertLevel, alertDesc, delivered}  API-level observation after RE
TFATAL == IsEvent("FATAL") /\ FatalObserved(E.d, E)
TraceStep == TTRY \/ TFATAL \/ TW \/ TS \/ TWE \/ TR \/ TRE \/ TRD \/ TKW \/ TKR \/ TA
\* every invariant of Record.tla is evaluated in every state of every trace: a step
\* into a state that violates one is not a behaviour of the specification
InvAll == AcceptOnlyGenuineNext /\ DeliveredIsPrefix /\ NoOverLimit /\ FragSound
TraceNext == TraceStep /\ InvAll'

\* ---- per-trace high-water mark in TLC registers (-workers 1)
Mark == IF l - 1 > TLCGet(tid) THEN TLCSet(tid, l - 1) ELSE TRUE
ASSUME \A i \in 1..N : TLCSet(i, 0)
Rejected == { i \in 1..N : TLCGet(i) # Len(Traces[i]) }
Post == /\ \A i \in Rejected : PrintT(<<"REJ", i, TLCGet(i)>>)
        /\ PrintT(<<"RESULT", N, Cardinality(Rejected)>>)
=============================================================================
