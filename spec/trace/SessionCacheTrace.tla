------------------------- MODULE SessionCacheTrace -------------------------
(***************************************************************************)
(* Batch trace validation (pattern B) of histories recorded from the REAL  *)
(* tlslite.sessioncache.SessionCache against the abstract reference        *)
(* CacheRef.tla (property C18).  TRACE_FILE = JSON list of traces.         *)
(*                                                                         *)
(* First event of a trace:  CFG {maxEntries, maxAge}                       *)
(* Sequential histories (one event per operation):                         *)
(*   op   {op: "set"|"get", id, s, now, res, size}                         *)
(*          set: s = token of the session stored, res = "ok"|"err"         *)
(*          get: res = "hit" (s = token of the returned session) |         *)
(*               "miss" (KeyError raised by __getitem__ itself) |          *)
(*               "err" (any other exception, or a KeyError escaping from   *)
(*               deeper inside the class)                                  *)
(*          size = len(entriesDict) after the operation                    *)
(*   inv  {s}        the owner cleared session s's resumable flag          *)
(* Histories of real threads under the controlled scheduler (real-time     *)
(* order of events):                                                       *)
(*   call {th, op, id, s, ret}   operation starts; ret = index of its ret  *)
(*   acq {th} / rel {th}         cooperative lock acquired / released      *)
(*   acc {th}                    thread touched entriesDict / entriesList /*)
(*                               firstIndex / lastIndex                    *)
(*   ret  {th, res, s, now, size} operation returned; now = what           *)
(*                               time.time() gave this operation           *)
(*   inv {s}, tick {}            environment steps                         *)
(* An operation takes effect at one instant between its call and its ret   *)
(* (Lin); if lock events are present that instant lies where no other      *)
(* thread holds the lock.  With the lock in place the linearisation is the *)
(* order of critical sections; if a change removed the lock TLC searches   *)
(* for any linearisation and rejects the history if none explains the      *)
(* results.  LockDiscipline: acc only while holding the lock.              *)
(* Un-instrumented stress run (real locks, no order known):                *)
(*   sset {id, s, res, size}, sget {id, s, res, size}   (all sset first)   *)
(*   rule: no internal error, size bound, a hit returns a session that was *)
(*   stored under that id.                                                 *)
(***************************************************************************)
EXTENDS Integers, Sequences, FiniteSets, TLC, TLCExt, Json, IOUtils, CacheRef

VARIABLES tid, l,
          ins,      \* abstract reference: insertions in linearisation order
          invalid,  \* session tokens no longer valid
          holder,   \* thread holding the cache lock (0 = free)
          pend      \* [thread -> 0 idle | i > 0 called at event i, not yet linearised | -i linearised]
vars == <<tid, l, ins, invalid, holder, pend>>

Traces == JsonDeserialize(IOEnv.TRACE_FILE)
NT == Len(Traces)
T == Traces[tid]
E == T[l]
C == T[1]                 \* the CFG event
Thr == 0..8

TraceInit ==
  /\ tid \in 1..NT
  /\ l = 2
  /\ ins = RefInit
  /\ invalid = {}
  /\ holder = -1          \* -1 = free (thread ids start at 0)
  /\ pend = [x \in Thr |-> 0]

IsEvent(e) == l <= Len(T) /\ E.ev = e /\ l' = l + 1 /\ UNCHANGED tid

\* ---- named clauses
NoInternalError(r) == r.res # "err"
SizeBound(r) == SizeOK(r.size, C.maxEntries)
\* effect and admissible result of operation c (call part) / r (result part) on the reference
Apply(c, r) ==
  /\ NoInternalError(r)
  /\ IF c.op = "set"
     THEN /\ r.res = "ok"
          /\ ins' = RefSet(ins, c.id, c.s, r.now)
     ELSE /\ GetOK(ins, invalid, c.id, r.now, C.maxEntries, C.maxAge, r.res, r.s)
          /\ (r.res = "hit" => HitSound(ins, invalid, c.id, r.now, C.maxAge, r.s))
          /\ UNCHANGED ins

\* ---- sequential histories
TOp == IsEvent("op") /\ Apply(E, E) /\ SizeBound(E) /\ UNCHANGED <<invalid, holder, pend>>
TInv == IsEvent("inv") /\ invalid' = invalid \cup {E.s} /\ UNCHANGED <<ins, holder, pend>>
TTick == IsEvent("tick") /\ UNCHANGED <<ins, invalid, holder, pend>>

\* ---- histories of real threads
TCall == IsEvent("call") /\ pend[E.th] = 0 /\ pend' = [pend EXCEPT ![E.th] = l]
         /\ UNCHANGED <<ins, invalid, holder>>
Lin(x) == /\ pend[x] > 0
          /\ holder \in {-1, x}
          /\ Apply(T[pend[x]], T[T[pend[x]].ret])
          /\ pend' = [pend EXCEPT ![x] = -pend[x]]
          /\ UNCHANGED <<tid, l, invalid, holder>>
TRet == IsEvent("ret") /\ pend[E.th] < 0 /\ SizeBound(E) /\ pend' = [pend EXCEPT ![E.th] = 0]
        /\ UNCHANGED <<ins, invalid, holder>>
TAcq == IsEvent("acq") /\ holder = -1 /\ holder' = E.th /\ UNCHANGED <<ins, invalid, pend>>
TRel == IsEvent("rel") /\ holder = E.th /\ holder' = -1 /\ UNCHANGED <<ins, invalid, pend>>
LockDiscipline == holder = E.th
TAcc == IsEvent("acc") /\ LockDiscipline /\ UNCHANGED <<ins, invalid, holder, pend>>

\* ---- stress run: order unknown; sset events come first in the file
StoredUnder(id) == { ins[k].s : k \in { j \in 1..Len(ins) : ins[j].id = id } }
TSSet == IsEvent("sset") /\ E.res = "ok" /\ SizeBound(E) /\ ins' = RefSet(ins, E.id, E.s, 0)
         /\ UNCHANGED <<invalid, holder, pend>>
TSGet == IsEvent("sget") /\ NoInternalError(E) /\ SizeBound(E)
         /\ (E.res = "hit" => E.s \in StoredUnder(E.id))
         /\ UNCHANGED <<ins, invalid, holder, pend>>

TraceNext == \/ TOp \/ TInv \/ TTick \/ TCall \/ TRet \/ TAcq \/ TRel \/ TAcc \/ TSSet \/ TSGet
             \/ \E x \in Thr : Lin(x)

\* ---- per-trace high-water mark in TLC registers (-workers 1)
Mark == IF l - 1 > TLCGet(tid) THEN TLCSet(tid, l - 1) ELSE TRUE
ASSUME \A i \in 1..NT : TLCSet(i, 0)
Rejected == { i \in 1..NT : TLCGet(i) # Len(Traces[i]) }
Post == /\ \A i \in Rejected : PrintT(<<"REJ", i, TLCGet(i)>>)
        /\ PrintT(<<"RESULT", NT, Cardinality(Rejected)>>)
=============================================================================
