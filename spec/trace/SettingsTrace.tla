---------------------------- MODULE SettingsTrace ----------------------------
(* trace = CFG {impls: [...], tdes: BOOLEAN} followed by CASE events          *)
EXTENDS Settings, Json, IOUtils, TLCExt
VARIABLES tid, l
Traces == JsonDeserialize(IOEnv.TRACE_FILE)
N == Len(Traces)
T == Traces[tid]
E == T[l]
Avail == [impls |-> Range(T[1].impls), tdes |-> T[1].tdes, compSend |-> Range(T[1].compSend), compRecv |-> Range(T[1].compRecv)]
TraceInit == tid \in 1..N /\ l = 2
TraceNext == /\ l <= Len(T) /\ E.ev = "CASE" /\ l' = l + 1 /\ UNCHANGED tid
             /\ CaseOk(E, Avail)
Mark == IF l - 1 > TLCGet(tid) THEN TLCSet(tid, l - 1) ELSE TRUE
ASSUME \A i \in 1..N : TLCSet(i, 0)
Rejected == { i \in 1..N : TLCGet(i) # Len(Traces[i]) }
Post == /\ \A i \in Rejected : PrintT(<<"REJ", i, TLCGet(i)>>)
        /\ PrintT(<<"RESULT", N, Cardinality(Rejected)>>)
=============================================================================
