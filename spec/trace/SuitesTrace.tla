----------------------------- MODULE SuitesTrace -----------------------------
(* one trace per (suite, version): CFG {tokens}, then OBS {negotiated, ...}   *)
EXTENDS Suites, Json, IOUtils, TLCExt
VARIABLES tid, l
Traces == JsonDeserialize(IOEnv.TRACE_FILE)
N == Len(Traces)
T == Traces[tid]
E == T[l]
TraceInit == tid \in 1..N /\ l = 2
\* OBS: a handshake both sides were configured for.  SEL: the PEER selected the suite in a ServerHello of
\* version E.ver although the client had offered it for other versions: the client may go on only if the suite
\* is defined for that version ("a suite is never negotiated in a protocol version that does not define it")
TraceNext == /\ l <= Len(T) /\ l' = l + 1 /\ UNCHANGED tid
             /\ \/ E.ev = "OBS" /\ (E.negotiated => SemanticsMatch(T[1].tokens, E))
                \/ E.ev = "SEL" /\ (E.accepted => DefinedAt(T[1].tokens, E.ver))
                \* SSEL: the ServerHello of the server under test: its suite is defined for the version it announces, and
                \* that version is the one the ClientHello asks for (supported_versions decides alone where present)
                \/ E.ev = "SSEL" /\ DefinedAt(T[1].tokens, E.ver) /\ (E.want >= 0 => E.ver = E.want)
                \* RS: a TLS 1.3 connection resumed from a ticket of ANOTHER suite with the same hash; CFG names the suite
                \* of this connection's ServerHello: the accessors report it and keys derived later (KeyUpdate) fit it
                \/ E.ev = "RS" /\ CipherNameOk(T[1].tokens, E.sessCipherName) /\ E.connCipherName = E.sessCipherName
                                /\ E.resumed /\ E.dataOk
                \* MC: a server holding several key pairs (default + virtual host) chose the suite named in CFG and
                \* presented a certificate with key type E.certKey: suite and certificate must fit together
                \/ E.ev = "MC" /\ DefinedAt(T[1].tokens, E.ver)
                                /\ (E.ver < 4 /\ CertKey(T[1].tokens) \notin {"none", "any"} => E.certKey = CertKey(T[1].tokens))
                                /\ (E.ver < 4 => E.ske = HasSKE(T[1].tokens))
Mark == IF l - 1 > TLCGet(tid) THEN TLCSet(tid, l - 1) ELSE TRUE
ASSUME \A i \in 1..N : TLCSet(i, 0)
Rejected == { i \in 1..N : TLCGet(i) # Len(Traces[i]) }
Post == /\ \A i \in Rejected : PrintT(<<"REJ", i, TLCGet(i)>>)
        /\ PrintT(<<"RESULT", N, Cardinality(Rejected)>>)
=============================================================================
