----------------------------- MODULE TamperTrace -----------------------------
(* trace = CFG {cs, ss, kind}  RES {both, c, s, bodyTamper}                  *)
(* both endpoints completed => their views are one admissible outcome for     *)
(* both policies, highest common version included (no downgrade); a modified  *)
(* handshake message body never leads to both completing (Tamper.tla).        *)
EXTENDS Negotiation, Json, IOUtils, TLCExt
VARIABLES tid, l
Traces == JsonDeserialize(IOEnv.TRACE_FILE)
N == Len(Traces)
T == Traces[tid]
E == T[l]
Norm(st) == [vers |-> {st.vers[i] : i \in 1..Len(st.vers)},
             ciphers |-> {st.ciphers[i] : i \in 1..Len(st.ciphers)},
             macs |-> {st.macs[i] : i \in 1..Len(st.macs)},
             kexs |-> {st.kexs[i] : i \in 1..Len(st.kexs)},
             curves |-> {st.curves[i] : i \in 1..Len(st.curves)},
             dhGroups |-> {st.dhGroups[i] : i \in 1..Len(st.dhGroups)},
             rsaHashes |-> {st.rsaHashes[i] : i \in 1..Len(st.rsaHashes)},
             ecdsaHashes |-> {st.ecdsaHashes[i] : i \in 1..Len(st.ecdsaHashes)},
             rsaSchemes |-> {st.rsaSchemes[i] : i \in 1..Len(st.rsaSchemes)},
             minKey |-> st.minKey, maxKey |-> st.maxKey, etm |-> st.etm, ems |-> st.ems, reqEms |-> st.reqEms,
             rsl |-> st.rsl, alpn |-> st.alpn,
             pskModes |-> {st.pskModes[i] : i \in 1..Len(st.pskModes)}]
\* RFC 8446 4.1.3: a TLS 1.3 server that negotiates an older version marks ServerHello.random; a TLS 1.3 client
\* that is offered an older version by such a server MUST abort with illegal_parameter when it sees the mark -
\* at the ServerHello, whatever the attacker does later.  sawVer = version of the ServerHello the client
\* processed (-1: none), local = the client's own alert ("" if it sent none).
SentinelEnforced(cs, ss, sawVer, local) ==
  (4 \in cs.vers /\ 4 \in ss.vers /\ sawVer >= 0 /\ sawVer < 4 /\ sawVer \in ss.vers) => local = "illegal_parameter"
\* ... and the server side of the same rule: a TLS 1.3 capable server marks the ServerHello.random of an older
\* version with DOWNGRD 01 (TLS 1.2) / DOWNGRD 00 (TLS 1.1 and below), and never marks a TLS 1.3 hello
\* A server whose highest version is TLS 1.2 never marks a TLS 1.2 hello (a TLS 1.3 capable client would have to
\* abort) and may mark older ones with DOWNGRD 00 (RFC 8446: SHOULD); a server limited to TLS 1.1 marks nothing.
ServerMark(ss, sawVer, mark) ==
  /\ (4 \in ss.vers /\ sawVer >= 0) => mark = (IF sawVer = 4 THEN "" ELSE IF sawVer = 3 THEN "01" ELSE "00")
  /\ (4 \notin ss.vers /\ 3 \in ss.vers /\ sawVer >= 0) => (IF sawVer = 3 THEN mark = "" ELSE mark \in {"", "00"})
  /\ (4 \notin ss.vers /\ 3 \notin ss.vers /\ sawVer >= 0) => mark = ""
TraceInit == tid \in 1..N /\ l = 2
TraceNext ==
  /\ l <= Len(T) /\ E.ev = "RES" /\ l' = l + 1 /\ UNCHANGED tid
  /\ (E.both => /\ Outcome(Norm(T[1].cs), Norm(T[1].ss), E.c, E.s)
                /\ ~E.bodyTamper)
  /\ (E.control => E.both)                                  \* the untouched flow completes (and agrees: line above)
  /\ SentinelEnforced(Norm(T[1].cs), Norm(T[1].ss), E.cSawVer, E.cLocal)
  /\ ServerMark(Norm(T[1].ss), E.sSentVer, E.shMark)       \* what the server itself put on the wire
Mark == IF l - 1 > TLCGet(tid) THEN TLCSet(tid, l - 1) ELSE TRUE
ASSUME \A i \in 1..N : TLCSet(i, 0)
Rejected == { i \in 1..N : TLCGet(i) # Len(Traces[i]) }
Post == /\ \A i \in Rejected : PrintT(<<"REJ", i, TLCGet(i)>>)
        /\ PrintT(<<"RESULT", N, Cardinality(Rejected)>>)
=============================================================================
