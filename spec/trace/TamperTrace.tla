----------------------------- MODULE TamperTrace -----------------------------
(* trace = CFG {cs, ss, kind}  RES {both, c, s, bodyTamper}                  *)
(* both endpoints completed => their views are one admissible outcome for     *)
(* both policies, highest common version included (no downgrade); a modified  *)
(* handshake message body never leads to both completing (Tamper.tla).        *)
EXTENDS Negotiation, Json, IOUtils, TLCExt
VARIABLES tid, l
Traces == JsonDeserialize(IOEnv.TRACE_FILE)
N == Len(Traces)
T == Traces[tid]
E == T[l]
Norm(st) == [vers |-> {st.vers[i] : i \in 1..Len(st.vers)},
             ciphers |-> {st.ciphers[i] : i \in 1..Len(st.ciphers)},
             macs |-> {st.macs[i] : i \in 1..Len(st.macs)},
             kexs |-> {st.kexs[i] : i \in 1..Len(st.kexs)},
             curves |-> {st.curves[i] : i \in 1..Len(st.curves)},
             dhGroups |-> {st.dhGroups[i] : i \in 1..Len(st.dhGroups)},
             minKey |-> st.minKey, maxKey |-> st.maxKey, etm |-> st.etm, ems |-> st.ems, reqEms |-> st.reqEms,
             rsl |-> st.rsl, alpn |-> st.alpn]
TraceInit == tid \in 1..N /\ l = 2
TraceNext ==
  /\ l <= Len(T) /\ E.ev = "RES" /\ l' = l + 1 /\ UNCHANGED tid
  /\ (E.both => /\ Outcome(Norm(T[1].cs), Norm(T[1].ss), E.c, E.s)
                /\ ~E.bodyTamper)
Mark == IF l - 1 > TLCGet(tid) THEN TLCSet(tid, l - 1) ELSE TRUE
ASSUME \A i \in 1..N : TLCSet(i, 0)
Rejected == { i \in 1..N : TLCGet(i) # Len(Traces[i]) }
Post == /\ \A i \in Rejected : PrintT(<<"REJ", i, TLCGet(i)>>)
        /\ PrintT(<<"RESULT", N, Cardinality(Rejected)>>)
=============================================================================
