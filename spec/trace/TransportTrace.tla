--------------------------- MODULE TransportTrace ---------------------------
(* Batch validation of socket-call traces of ONE endpoint against           *)
(* Transport.tla (reader) plus the writer discipline.  Events:              *)
(*   CFG     {bodies: [...], outcomeEq, wireEq, dataEq}  incoming record     *)
(*           body lengths; differential verdicts against the unconstrained   *)
(*           run of the same scenario (computed by the harness)              *)
(*   recv    {n, k}   OS recv(n) returned k bytes; k = -1 would-block, 0 EOF *)
(*   rec     {len}    RecordSocket.recv handed a record upward               *)
(*   sendrec {len}    RecordSocket.send was given len bytes (header+body)    *)
(*   send    {n, k}   OS send(n bytes) accepted k; k = -1 would-block        *)
(*   yield   {v}      the generator yielded v (0 = wants read, 1 = write)    *)
EXTENDS Transport, Integers, Json, IOUtils, TLCExt

VARIABLES tid, l,
          nrec,     \* "rec" events seen
          wq,       \* bytes given to RecordSocket.send and not yet accepted by the OS
          wlast,    \* outcome of the last OS send: "none" | "wb" | "partial" | "full"
          sinceY    \* socket calls since the last yield
tvars == <<rvars, tid, l, nrec, wq, wlast, sinceY>>
Traces == JsonDeserialize(IOEnv.TRACE_FILE)
N == Len(Traces)
T == Traces[tid]
E == T[l]

TraceInit == /\ tid \in 1..N /\ l = 2
             /\ RInitWith(Traces[tid][1].bodies)
             /\ nrec = 0 /\ wq = 0 /\ wlast = "none" /\ sinceY = 1
             \* the operation's outcome, wire bytes and delivered data equal those of the unconstrained run
             /\ Traces[tid][1].outcomeEq /\ Traces[tid][1].wireEq /\ Traces[tid][1].dataEq

IsEvent(e) == l <= Len(T) /\ E.ev = e /\ l' = l + 1 /\ UNCHANGED tid
WKeep == UNCHANGED <<nrec, wq, wlast>>
RKeep == UNCHANGED rvars

\* the network is not observed: bytes "arrive" exactly when the OS recv returns them
ArriveFor(k) == arrived' = arrived + k

TRecv ==
  /\ IsEvent("recv") /\ WKeep /\ sinceY' = sinceY + 1
  /\ IF E.k > 0
     THEN /\ phase # "done" /\ bsbuf = 0
          /\ E.n = Max(ReadAhead, need)              \* header-then-body requests with read-ahead
          /\ E.k <= E.n
          /\ LET k == Min(need, E.k) IN
               /\ taken' = taken + E.k /\ arrived' = arrived + E.k
               /\ bsbuf' = E.k - k
               /\ Advance(E.k - k, need - k)
          /\ lastWB' = FALSE /\ yields' = 0 /\ UNCHANGED <<bodies, nwb>>
     ELSE IF E.k = -1
     THEN /\ bsbuf = 0 /\ lastWB' = TRUE /\ yields' = 0
          /\ UNCHANGED <<bodies, arrived, taken, bsbuf, phase, need, rec, out, nwb>>
     ELSE /\ bsbuf = 0 /\ UNCHANGED rvars              \* EOF
\* BufferedSocket serves later requests from its buffer without a socket call
TServe == ServeFromBuffer /\ UNCHANGED <<tid, l, nrec, wq, wlast, sinceY>>
TRec == /\ IsEvent("rec") /\ nrec < out /\ E.len = bodies[nrec + 1] /\ nrec' = nrec + 1
        /\ RKeep /\ UNCHANGED <<wq, wlast, sinceY>>
TSendRec == /\ IsEvent("sendrec") /\ wq' = wq + E.len /\ RKeep /\ UNCHANGED <<nrec, wlast, sinceY>>
TSend == /\ IsEvent("send") /\ RKeep /\ UNCHANGED nrec /\ sinceY' = sinceY + 1
         /\ E.n <= wq /\ E.n > 0
         /\ IF E.k = -1 THEN wq' = wq /\ wlast' = "wb"
            ELSE /\ E.k <= E.n /\ E.k > 0 /\ wq' = wq - E.k             \* NoByteLostOrDup on the send side
                 /\ wlast' = IF E.k < E.n THEN "partial" ELSE "full"
\* YieldDiscipline: 0 only directly after a would-block recv, 1 only after a would-block or partial send;
\* and at least one socket call since the previous yield (no spinning)
TYield == /\ IsEvent("yield") /\ sinceY > 0 /\ sinceY' = 0
          /\ IF E.v = 0 THEN lastWB /\ lastWB' = FALSE /\ yields' = 1
                             /\ UNCHANGED <<bodies, arrived, taken, bsbuf, phase, need, rec, out, nwb>> /\ WKeep
             ELSE /\ wlast \in {"wb", "partial"} /\ wlast' = "none" /\ RKeep /\ UNCHANGED <<nrec, wq>>
TEnd == /\ IsEvent("END") /\ wq = 0 /\ nrec = out /\ UNCHANGED <<rvars, nrec, wq, wlast, sinceY>>

TraceNext == (TRecv \/ TServe \/ TRec \/ TSendRec \/ TSend \/ TYield \/ TEnd) /\ (NoByteLostOrDup /\ StreamIndependence)'

Mark == IF l - 1 > TLCGet(tid) THEN TLCSet(tid, l - 1) ELSE TRUE
ASSUME \A i \in 1..N : TLCSet(i, 0)
Rejected == { i \in 1..N : TLCGet(i) # Len(Traces[i]) }
Post == /\ \A i \in Rejected : PrintT(<<"REJ", i, TLCGet(i)>>)
        /\ PrintT(<<"RESULT", N, Cardinality(Rejected)>>)
=============================================================================
