--------------------------- MODULE TransportTrace ---------------------------
(* Batch validation of socket-call traces of ONE endpoint (C14).            *)
(* The design of the reader (header-then-body requests, read-ahead) is       *)
(* model-checked in Transport.tla; a trace is judged only by what the        *)
(* property demands of ANY correct I/O layer, so that a different buffering  *)
(* policy is not an alarm:                                                   *)
(*  - the operation outcomes, the bytes put on the wire and the data          *)
(*    delivered equal those of the unconstrained run (CFG flags);            *)
(*  - records are handed upward exactly as the incoming stream frames them,  *)
(*    in order, and never before their bytes were received;                  *)
(*  - never sends a byte it was not given, and has sent everything at END;   *)
(*  - between two yields there is at least one socket call of the awaited    *)
(*    kind (a generator that yields again without touching the socket would  *)
(*    spin or hang under a select loop).                                     *)
(* Events:                                                                   *)
(*   CFG     {bodies: [...], outcomeEq, wireEq, dataEq}                      *)
(*   recv    {n, k}   OS recv(n) returned k bytes; k = -1 would-block, 0 EOF *)
(*   brecv   {n, k}   BufferedSocket.recv served k bytes (informational)     *)
(*   rec     {len}    RecordSocket.recv handed a record upward               *)
(*   sendrec {len}    RecordSocket.send was given len bytes (header+body)    *)
(*   send    {n, k}   OS send(n bytes) accepted k; k = -1 would-block        *)
(*   yield   {v}      the generator yielded v (0 = wants read, 1 = write)    *)
EXTENDS Naturals, Integers, Sequences, FiniteSets, TLC, Json, IOUtils, TLCExt

VARIABLES tid, l,
          taken,    \* bytes received from the OS socket
          used,     \* bytes of the stream covered by the records handed upward
          nrec,     \* records handed upward
          wq,       \* bytes given to RecordSocket.send and not yet accepted by the OS
          rcalls,   \* recv calls since the last yield
          scalls    \* send calls since the last yield
tvars == <<tid, l, taken, used, nrec, wq, rcalls, scalls>>
Traces == JsonDeserialize(IOEnv.TRACE_FILE)
N == Len(Traces)
T == Traces[tid]
E == T[l]
Bodies == T[1].bodies
HDR == 5

TraceInit == /\ tid \in 1..N /\ l = 2
             /\ taken = 0 /\ used = 0 /\ nrec = 0 /\ wq = 0 /\ rcalls = 1 /\ scalls = 1
             \* StreamIndependence: outcome, wire bytes and delivered data equal those of the unconstrained run
             /\ Traces[tid][1].outcomeEq /\ Traces[tid][1].wireEq /\ Traces[tid][1].dataEq

IsEvent(e) == l <= Len(T) /\ E.ev = e /\ l' = l + 1 /\ UNCHANGED tid

TRecv == /\ IsEvent("recv") /\ E.k <= E.n
         /\ taken' = taken + (IF E.k > 0 THEN E.k ELSE 0)
         /\ rcalls' = rcalls + 1 /\ UNCHANGED <<used, nrec, wq, scalls>>
TBrecv == IsEvent("brecv") /\ UNCHANGED <<taken, used, nrec, wq, rcalls, scalls>>
\* NoByteLostOrDup (receive side): the next record of the stream, whole, after its bytes arrived
TRec == /\ IsEvent("rec") /\ nrec < Len(Bodies) /\ E.len = Bodies[nrec + 1]
        /\ used' = used + HDR + E.len /\ used' <= taken
        /\ nrec' = nrec + 1 /\ UNCHANGED <<taken, wq, rcalls, scalls>>
TSendRec == /\ IsEvent("sendrec") /\ wq' = wq + E.len /\ UNCHANGED <<taken, used, nrec, rcalls, scalls>>
\* NoByteLostOrDup (send side)
TSend == /\ IsEvent("send") /\ E.n > 0 /\ E.n <= wq /\ E.k <= E.n
         /\ wq' = wq - (IF E.k > 0 THEN E.k ELSE 0)
         /\ scalls' = scalls + 1 /\ UNCHANGED <<taken, used, nrec, rcalls>>
\* no spinning: a socket call of the awaited kind happened since the previous yield
TYield == /\ IsEvent("yield")
          /\ IF E.v = 0 THEN rcalls > 0 ELSE scalls > 0
          /\ rcalls' = 0 /\ scalls' = 0 /\ UNCHANGED <<taken, used, nrec, wq>>
TEnd == /\ IsEvent("END") /\ wq = 0 /\ UNCHANGED <<taken, used, nrec, wq, rcalls, scalls>>

TraceNext == TRecv \/ TBrecv \/ TRec \/ TSendRec \/ TSend \/ TYield \/ TEnd

Mark == IF l - 1 > TLCGet(tid) THEN TLCSet(tid, l - 1) ELSE TRUE
ASSUME \A i \in 1..N : TLCSet(i, 0)
Rejected == { i \in 1..N : TLCGet(i) # Len(Traces[i]) }
Post == /\ \A i \in Rejected : PrintT(<<"REJ", i, TLCGet(i)>>)
        /\ PrintT(<<"RESULT", N, Cardinality(Rejected)>>)
=============================================================================
