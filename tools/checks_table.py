# add(pid, category, text, design_ref, note, technique, engine)
add("C01", "model_checking",
    "TLC exhaustively checks the Record.tla design (fragmentation, FIFO wire, buffer slicing, key updates, adversary) for DeliveredIsPrefix/NoOverLimit/FragSound; every record-level event of live connections for every negotiable suite x version x EtM x record_size_limit x recordSize x TLS1.3 padding is validated by TLC against RecordTrace.tla with all invariants evaluated in every state. Exhaustive for the abstract design within small constants; sampled (boundary grid) for payload lengths.",
    "DESIGN.md section 5 C01, section 3.1",
    "Trusted: TLC, harness stepping loop and in-memory wire, reference byte stream. Limits are derived by the spec from the two settings (RFC 8449), not read from the code.",
    "TLA+ spec (Record.tla) model-checked by TLC + TLC trace validation of live two-endpoint connections",
    "tla-record")
