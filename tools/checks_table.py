# add(pid, category, text, design_ref, note, technique, engine)
add("C01", "model_checking",
    "TLC exhaustively checks the Record.tla design (fragmentation, FIFO wire, buffer slicing, key updates, adversary) for DeliveredIsPrefix/NoOverLimit/FragSound; every record-level event of live connections for every negotiable suite x version x EtM x record_size_limit x recordSize x TLS1.3 padding is validated by TLC against RecordTrace.tla with all invariants evaluated in every state. Exhaustive for the abstract design within small constants; sampled (boundary grid) for payload lengths.",
    "DESIGN.md section 5 C01, section 3.1",
    "Trusted: TLC, harness stepping loop and in-memory wire, reference byte stream. Limits are derived by the spec from the two settings (RFC 8449), not read from the code.",
    "TLA+ spec (Record.tla) model-checked by TLC + TLC trace validation of live two-endpoint connections",
    "tla-record")
add("C02", "model_checking",
    "TLC exhaustively checks Record.tla with the key-less adversary (flip/drop/dup/swap/reflect/old-epoch, <=1 op quick, <=2 thorough) for AcceptOnlyGenuineNext and DeadIsFinal. Binding: for one suite per cipher class x version x EtM, the receiving RecordLayer of a live connection is shown every single-bit flip, byte inversion, truncation, extension and SSLv2 re-framing of pending records and every arrangement of a 3-record window from a restorable state; TLC compares each outcome with the spec's acceptance rule (Expect/IsNext). Connection-level attacks (one per connection) are validated incl. RejectIsFatal (closed, not resumable, fatal integrity alert on the wire, nothing delivered).",
    "DESIGN.md section 5 C02, section 3.1",
    "Trusted: TLC, harness wire, copy/deepcopy snapshot of the read ConnectionState. Plaintext-epoch records are not attacked here (C04).",
    "TLA+ spec with adversary model-checked by TLC + TLC validation of attack traces replayed into real record layers",
    "tla-record")
