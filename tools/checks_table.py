# add(pid, category, text, design_ref, note, technique, engine)
add("C01", "model_checking",
    "TLC exhaustively checks the Record.tla design (fragmentation, FIFO wire, buffer slicing, key updates, adversary) for DeliveredIsPrefix/NoOverLimit/FragSound; every record-level event of live connections for every negotiable suite x version x EtM x record_size_limit x recordSize x TLS1.3 padding is validated by TLC against RecordTrace.tla with all invariants evaluated in every state. Exhaustive for the abstract design within small constants; sampled (boundary grid) for payload lengths.",
    "DESIGN.md section 5 C01, section 3.1",
    "Trusted: TLC, harness stepping loop and in-memory wire, reference byte stream. Limits are derived by the spec from the two settings (RFC 8449), not read from the code.",
    "TLA+ spec (Record.tla) model-checked by TLC + TLC trace validation of live two-endpoint connections",
    "tla-record")
add("C02", "model_checking",
    "TLC exhaustively checks Record.tla with the key-less adversary (flip/drop/dup/swap/reflect/old-epoch, <=1 op quick, <=2 thorough) for AcceptOnlyGenuineNext and DeadIsFinal. Binding: for one suite per cipher class x version x EtM, the receiving RecordLayer of a live connection is shown every single-bit flip, byte inversion, truncation, extension and SSLv2 re-framing of pending records and every arrangement of a 3-record window from a restorable state; TLC compares each outcome with the spec's acceptance rule (Expect/IsNext). Connection-level attacks (one per connection) are validated incl. RejectIsFatal (closed, not resumable, fatal integrity alert on the wire, nothing delivered).",
    "DESIGN.md section 5 C02, section 3.1",
    "Trusted: TLC, harness wire, copy/deepcopy snapshot of the read ConnectionState. Plaintext-epoch records are not attacked here (C04).",
    "TLA+ spec with adversary model-checked by TLC + TLC validation of attack traces replayed into real record layers",
    "tla-record")
add("C06", "model_checking",
    "HandshakeOrder.tla is the RFC message-order automaton (one state per _getMsg call site, per role x flavour). TLC checks that every honest sequence recorded from live handshakes (SSLv3-TLS1.3 x RSA/DHE/ECDHE/DSS/SRP/anon x client auth x tickets x NPN x HRR x resumption) is a word of it and enumerates ALL single deviations (skip/dup/swap/insert fabricated/replay earlier message; <=2 deviations by TLC simulation in thorough) with the verdict the property demands. Every emitted case is replayed against a live endpoint by a puppet peer whose transcript is consistent with what it sent, so an order bug shows as a completed handshake. Judged: completes only if admissible; no application data before a valid completion; own rejections are fatal alerts; no second handshake.",
    "DESIGN.md section 5 C06, section 3.2, Appendix B.1",
    "Trusted: TLC, puppet peer (send-side scripting at _sendMsg/_queue_message), stepping loop. Deviations limited to what a key-holding peer can send without receiving more from the EUT (swap within one flight).",
    "TLA+ automaton + TLC-enumerated deviation scripts replayed into live handshakes (spec->code)",
    "tla-handshake")
add("C17", "fault_enumeration",
    "ConnLife.tla is the API contract (what handshake/read/write/close may return under each peer/transport condition and the closed/resumable state they must leave); TLC model-checks its clauses (TruncationNotEOF, NoResumeAfterFatal, NoCompleteAfterFault, FatalAlertSurfaced, CleanCloseKeepsResumable, WriteAfterCloseRaises). Fault enumeration: EOF/ECONNRESET/EPIPE injected at EVERY recv and send call index of handshakes (flavours x both roles) plus every placement of close_notify/warning/fatal/EOF/reset/EPIPE around data x closeSocket x ignoreAbruptClose x version x role; every API call is validated by TLC against ConnLifeTrace.tla (result class, closed, session resumability, alert description surfaced, bytes exact).",
    "DESIGN.md section 5 C17, section 3.6, Appendix F.1",
    "Trusted: TLC, scripted in-memory socket, stepping loop. A transport that failed once stays failed (recv and send).",
    "TLA+ API-contract spec model-checked by TLC + exhaustive fault injection with TLC trace validation",
    "tla-connlife")
add("C13", "model_checking",
    "Resumption.tla states when a stored session may be resumed (completed, not invalidated, not expired, right provenance, consistent ClientHello; RFC 5077/7627/8446 rules) and what the resumed connection inherits. TLC enumerates ALL histories of <=4 (thorough <=5) events per mechanism (session ID, TLS<=1.2 ticket, TLS 1.3 PSK ticket) over connect(ClientHello variant)/close(clean|fatal|abrupt)/expire(server|both clocks)/rotate(keep|drop old key)/flush cache/tamper, checks the rule properties on the model and emits each history with per-connection predictions; every maximal history is replayed with live endpoints under a virtual clock (per-endpoint skew) and the outcome (completed, resumed on the wire, inherited suite/EMS/EtM/SNI) compared.",
    "DESIGN.md section 5 C13, section 3.4, Appendix F.2",
    "Trusted: TLC, virtual clock, wire-level detection of resumption (server sent no Certificate). A laxer client is emulated for SNI/suite-inconsistent offers in TLS<=1.2 (tlslite's own client API refuses them with ValueError).",
    "TLA+ history model + TLC-enumerated histories replayed into live connections (spec->code)",
    "tla-resumption")
add("C16", "model_checking",
    "PostHS.tla (on top of Record.tla) states the post-handshake obligations: keys switch exactly after a KeyUpdate is sent/accepted, update_requested is answered before more application data, a heartbeat response exists only for an outstanding accepted request with exactly its payload, the server records a post-handshake client certificate only after the client's Finished was accepted, and malformed/unsolicited/not-permitted control messages are fatal (or silently dropped where RFC 6520 says so). ALL histories up to length 3 (thorough 4) over {write, read, key-update req/noreq, heartbeat, request-client-auth} x both endpoints (TLS 1.3; TLS 1.2: heartbeat) plus seeded longer ones run on live pairs; every record, key change and control message is logged and TLC validates each trace against PostHSTrace.tla with Record.tla's FIFO/prefix invariants in every state; 12 adversarial control-message kinds are judged by BadControl.",
    "DESIGN.md section 5 C16, section 3.5",
    "Trusted: TLC, record tracer and message hook, reference stream. NewSessionTicket delivery is covered as part of every TLS 1.3 history (ticket_count 0..2).",
    "TLA+ spec + TLC trace validation of exhaustive short operation histories on live pairs (code->spec)",
    "tla-record")
