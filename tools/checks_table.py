# add(pid, category, text, design_ref, note, technique, engine)
add("C01", "model_checking",
    "TLC exhaustively checks the Record.tla design (fragmentation, FIFO wire, buffer slicing, key updates, adversary) for DeliveredIsPrefix/NoOverLimit/FragSound; every record-level event of live connections for every negotiable suite x version x EtM x record_size_limit x recordSize x TLS1.3 padding is validated by TLC against RecordTrace.tla with all invariants evaluated in every state. Exhaustive for the abstract design within small constants; sampled (boundary grid) for payload lengths.",
    "DESIGN.md section 5 C01, section 3.1",
    "Trusted: TLC, harness stepping loop and in-memory wire, reference byte stream. Limits are derived by the spec from the two settings (RFC 8449), not read from the code.",
    "TLA+ spec (Record.tla) model-checked by TLC + TLC trace validation of live two-endpoint connections",
    "tla-record")
add("C02", "model_checking",
    "TLC exhaustively checks Record.tla with the key-less adversary (flip/drop/dup/swap/reflect/old-epoch, <=1 op quick, <=2 thorough) for AcceptOnlyGenuineNext and DeadIsFinal. Binding: for one suite per cipher class x version x EtM, the receiving RecordLayer of a live connection is shown every single-bit flip, byte inversion, truncation, extension and SSLv2 re-framing of pending records and every arrangement of a 3-record window from a restorable state; TLC compares each outcome with the spec's acceptance rule (Expect/IsNext). Connection-level attacks (one per connection) are validated incl. RejectIsFatal (closed, not resumable, fatal integrity alert on the wire, nothing delivered).",
    "DESIGN.md section 5 C02, section 3.1",
    "Trusted: TLC, harness wire, copy/deepcopy snapshot of the read ConnectionState. Plaintext-epoch records are not attacked here (C04).",
    "TLA+ spec with adversary model-checked by TLC + TLC validation of attack traces replayed into real record layers",
    "tla-record")
add("C06", "model_checking",
    "HandshakeOrder.tla is the RFC message-order automaton (one state per _getMsg call site, per role x flavour). TLC checks that every honest sequence recorded from live handshakes (SSLv3-TLS1.3 x RSA/DHE/ECDHE/DSS/SRP/anon x client auth x tickets x NPN x HRR x resumption) is a word of it and enumerates ALL single deviations (skip/dup/swap/insert fabricated/replay earlier message; <=2 deviations by TLC simulation in thorough) with the verdict the property demands. Every emitted case is replayed against a live endpoint by a puppet peer whose transcript is consistent with what it sent, so an order bug shows as a completed handshake. Judged: completes only if admissible; no application data before a valid completion; own rejections are fatal alerts; no second handshake.",
    "DESIGN.md section 5 C06, section 3.2, Appendix B.1",
    "Trusted: TLC, puppet peer (send-side scripting at _sendMsg/_queue_message), stepping loop. Deviations limited to what a key-holding peer can send without receiving more from the EUT (swap within one flight).",
    "TLA+ automaton + TLC-enumerated deviation scripts replayed into live handshakes (spec->code)",
    "tla-handshake")
add("C17", "fault_enumeration",
    "ConnLife.tla is the API contract (what handshake/read/write/close may return under each peer/transport condition and the closed/resumable state they must leave); TLC model-checks its clauses (TruncationNotEOF, NoResumeAfterFatal, NoCompleteAfterFault, FatalAlertSurfaced, CleanCloseKeepsResumable, WriteAfterCloseRaises). Fault enumeration: EOF/ECONNRESET/EPIPE injected at EVERY recv and send call index of handshakes (flavours x both roles) plus every placement of close_notify/warning/fatal/EOF/reset/EPIPE around data x closeSocket x ignoreAbruptClose x version x role; every API call is validated by TLC against ConnLifeTrace.tla (result class, closed, session resumability, alert description surfaced, bytes exact).",
    "DESIGN.md section 5 C17, section 3.6, Appendix F.1",
    "Trusted: TLC, scripted in-memory socket, stepping loop. A transport that failed once stays failed (recv and send).",
    "TLA+ API-contract spec model-checked by TLC + exhaustive fault injection with TLC trace validation",
    "tla-connlife")
add("C13", "model_checking",
    "Resumption.tla states when a stored session may be resumed (completed, not invalidated, not expired, right provenance, consistent ClientHello; RFC 5077/7627/8446 rules) and what the resumed connection inherits. TLC enumerates ALL histories of <=4 (thorough <=5) events per mechanism (session ID, TLS<=1.2 ticket, TLS 1.3 PSK ticket) over connect(ClientHello variant)/close(clean|fatal|abrupt)/expire(server|both clocks)/rotate(keep|drop old key)/flush cache/tamper, checks the rule properties on the model and emits each history with per-connection predictions; every maximal history is replayed with live endpoints under a virtual clock (per-endpoint skew) and the outcome (completed, resumed on the wire, inherited suite/EMS/EtM/SNI) compared.",
    "DESIGN.md section 5 C13, section 3.4, Appendix F.2",
    "Trusted: TLC, virtual clock, wire-level detection of resumption (server sent no Certificate). A laxer client is emulated for SNI/suite-inconsistent offers in TLS<=1.2 (tlslite's own client API refuses them with ValueError).",
    "TLA+ history model + TLC-enumerated histories replayed into live connections (spec->code)",
    "tla-resumption")
add("C16", "model_checking",
    "PostHS.tla (on top of Record.tla) states the post-handshake obligations: keys switch exactly after a KeyUpdate is sent/accepted, update_requested is answered before more application data, a heartbeat response exists only for an outstanding accepted request with exactly its payload, the server records a post-handshake client certificate only after the client's Finished was accepted, and malformed/unsolicited/not-permitted control messages are fatal (or silently dropped where RFC 6520 says so). ALL histories up to length 3 (thorough 4) over {write, read, key-update req/noreq, heartbeat, request-client-auth} x both endpoints (TLS 1.3; TLS 1.2: heartbeat) plus seeded longer ones run on live pairs; every record, key change and control message is logged and TLC validates each trace against PostHSTrace.tla with Record.tla's FIFO/prefix invariants in every state; 12 adversarial control-message kinds are judged by BadControl.",
    "DESIGN.md section 5 C16, section 3.5",
    "Trusted: TLC, record tracer and message hook, reference stream. NewSessionTicket delivery is covered as part of every TLS 1.3 history (ticket_count 0..2).",
    "TLA+ spec + TLC trace validation of exhaustive short operation histories on live pairs (code->spec)",
    "tla-record")
add("C09", "model_checking",
    "The standards (FIPS-197, SP 800-38A/D, RFC 3610, RFC 8439, RC4, SP 800-67 EDE composition, RFC 2104/5246/5705/5869/8446 KDF structure, SSLv3 PRF/MAC/Finished) are transcribed into TLA+ (spec/Crypto/*.tla) from the standards, validated against published vectors and OpenSSL cross-checks on every run (and their corrupted twins must be rejected), and TLC evaluates them on every call logged from the real primitives: parameter grid over key sizes, message/AAD lengths around block boundaries, counter wraps, every split of <=4 blocks into <=3 streaming calls (stateful objects validated call by call), AEAD open on untouched and on every single-byte-modified ciphertext/tag/nonce/AAD, every version x PRF hash x label of calc_key, key-block slicing per role for every cipher/MAC class. Python never compares outputs itself.",
    "DESIGN.md section 5 C09, section 3.11, section 2.4 patterns C/D",
    "Leaves trusted: hashlib hashes, stdlib hmac, single DES via openssl CLI (listed in evidence trusted_base). Sampled grid x seeds, not all inputs. SSLv3 PRF/MAC transcriptions have no published vectors (validated by reading + OpenSSL-free structure).",
    "TLA+ transcription of the standards evaluated by TLC on logged calls of the real primitives (spec as executable oracle)",
    "tla-crypto")
add("C12", "model_checking",
    "CBC.tla states CbcOk(version, body, macLen, block, MAC) from RFC 5246 6.2.3.2 / RFC 6101. TLC evaluates it on every enumerated input and demands equality with ct_check_cbc_mac_and_pad: with a transparent MAC all body lengths 0..96 (thorough 0..320+edges) x all 256 last-byte values x every admissible padding x one wrong byte at every padding/MAC/last-64-data position x short bodies x padding longer than body x 256-byte window edges x 4 versions x block 8/16; real HMAC-MD5/SHA1/SHA256/SHA384 and SSLv3 MAC on a thinner grid; records built by an independent sender (stdlib MAC, openssl ECB for the block cipher) with EVERY admissible padding length fed to a real receiving RecordLayer (MtE and EtM, AES-128/256, 3DES), plus every single-byte plaintext corruption.",
    "DESIGN.md section 5 C12, section 3.1",
    "Trusted: TLC, stdlib hmac/hashlib, openssl enc -ecb for the independent sender. Timing is not observed.",
    "TLA+ predicate evaluated by TLC on exhaustively enumerated inputs vs the real function (spec as executable oracle)",
    "tla-crypto")
add("C15", "model_checking",
    "Codec.tla is the TLS presentation language (RFC 5246 section 4 / RFC 8446 section 3) with Enc/Dec/Fits; CodecSchemas.tla holds 94 schemas written from the RFCs (record header, alert, heartbeat, ticket payloads, 35 handshake message forms, 53 extension x context forms). TLC (1) checks Dec(Enc(v)) = v on its own boundary-value enumeration and (2) judges every implementation case: write(v) = Enc(v), unrepresentable values must be refused, and for perturbed encodings derived from the layout (every truncation, each length prefix +-1 with and without compensating outer lengths, byte appended inside each delimited level, dropped last byte, integer +-1) the parser must raise a decode error exactly when Dec rejects and project to the same value and re-serialise identically when Dec accepts.",
    "DESIGN.md section 5 C15, section 3.10",
    "Trusted: TLC, per-class adapters (constructor calls / attribute projection). X.509 and zlib payloads are opaque; 2^24 prefixes, SSLv2 messages, TACK and delegated_credential not covered. Range (not framing) leniencies are recorded in evidence, not judged.",
    "TLA+ presentation-language spec evaluated by TLC on values and perturbed encodings vs real write()/parse() (spec as executable oracle)",
    "tla-codec")
add("C14", "model_checking",
    "Transport.tla models the record reader (1+4+body requests, BufferedSocket read-ahead) under every chunking and would-block placement; TLC checks NoByteLostOrDup, StreamIndependence, YieldDiscipline, NoSpin, NoStuck exhaustively on small streams. Binding: each scenario (handshake of 6-12 flavours incl. HRR, resumption, client auth, SRP + 700 B / 20 kB exchanges + KeyUpdate + close) is run over an unconstrained socket and then under schedules on BOTH endpoints (all 1-byte, every single would-block placement, boundary sizes 1/4/5, large sizes, seeded random sizes with would-blocks on recv and partial/would-block sends) and under MITM re-fragmentation / coalescing of plaintext handshake flights (1-byte records, split inside the handshake header, one big record); thanks to the per-endpoint DRBG the outcome of every operation, every byte put on the wire and the data delivered must equal the unconstrained run, and each endpoint's socket-call trace is validated by TLC (records handed up exactly as framed and never before their bytes arrived, nothing sent that was not given, no yield without an intervening socket call).",
    "DESIGN.md section 5 C14, section 3.7",
    "Trusted: TLC, scripted socket, deterministic DRBG. The blocking API and AsyncStateMachine wrappers drive the same generators; they are exercised only through the generator protocol here.",
    "TLA+ model checked by TLC + differential runs under schedules with TLC validation of socket-call traces (code->spec)",
    "tla-transport")
add("C10", "model_checking",
    "(a) SignFault.tla: in every flavour where the endpoint signs with its long-term key (ServerKeyExchange RSA/ECDSA/DSA SSLv3-TLS1.2 incl. SRP-cert; client CertificateVerify SSLv3-TLS1.3 with RSA/ECDSA/DSA/Ed25519 keys; TLS 1.3 server CertificateVerify RSA-PSS/ECDSA/Ed25519; post-handshake auth) the k-th private-key operation is made to return a wrong value (RSA raw op bit flip; ECDSA/EdDSA/DSA signature bit flip below the sign-then-verify site); TLC validates that no SKE/CertificateVerify leaves the endpoint after the fault and that the call fails. (b)+(c) SigKex.tla (EMSA-PKCS1-v1_5 / EMSA-PSS acceptance predicates from RFC 8017, FFDH/EC/X25519/X448 share validation) evaluated by TLC on crafted signatures (35 PKCS#1 classes, 42 PSS classes, every key type, every signature bit in thorough) with OpenSSL as independent verifier/signer, and on share classes replayed into calc_shared_key; both parties derive the same secret for every group (cross-checked with pow / RFC 7748 ladder / openssl pkeyutl -derive).",
    "DESIGN.md section 5 C10, section 3.11",
    "Trusted: TLC, pow(), openssl CLI (independent verifier), stdlib hashlib. Number-theoretic soundness of ECDSA/EdDSA/DSA beyond agreement with OpenSSL is not decided.",
    "TLA+ predicates evaluated by TLC on crafted inputs + TLC trace validation of fault-injected handshakes",
    "tla-sigkex")
add("C11", "model_checking",
    "(a) ImplicitRejection.tla transcribes the implicit-rejection decryption (valid PKCS#1 type 2 -> message; otherwise a synthetic message whose length is selected from a key-and-ciphertext-derived PRF) and TLC demands equality with RSAKey.decrypt on ~30 encoded-message shapes x 7 moduli (incl. 512/1025/4096-bit), random ciphertexts and publicly invalid inputs, each decrypted twice (determinism). (b) UniformCKE.tla: for every RSA-key-exchange flavour (SSLv3-TLS1.2, with client auth, with tickets) a puppet client sends 17 classes of encrypted premaster (valid; wrong first/second byte; zero in each mandatory padding position; no separator; 47/49-byte and empty message; wrong version bytes; c >= n; short/long ciphertext; 0 and 1) and continues honestly; TLC validates the product trace: the server's records, alert and failure point are identical for every malformed class and the genuine message completes.",
    "DESIGN.md section 5 C11, section 3.11",
    "Trusted: TLC, pow() for raw RSA, stdlib hmac/hashlib for the PRF leaves, puppet client. Timing is not observed.",
    "TLA+ transcription evaluated by TLC on crafted ciphertexts + TLC validation of per-class product traces of live servers",
    "tla-sigkex")
add("C20", "model_checking",
    "Suites.tla computes the registered meaning of a suite from the tokens of its IANA name (key exchange, certificate key type, ServerKeyExchange presence, cipher and key length, block/IV/fixed-nonce lengths, MAC or AEAD tag length, PRF hash, minimum version, record length on the wire per plaintext length and EtM). For EVERY id known to the library x SSLv3..TLS1.3 x EtM the suite is forced on a live pair and observed independently of the library's classification lists (messages seen, certificate key type, the cipher constructor actually called with its key/IV lengths, MAC digest size, tag length, PRF found by recomputing the client Finished over the recorded transcript with hashlib/hmac, record lengths of known plaintexts, accessor names, data intact); TLC judges every observation (SemanticsMatch) and that no suite is negotiated in a version that does not define it.",
    "DESIGN.md section 5 C20, section 3.3",
    "Trusted: TLC, hashlib/hmac, interception of the cipher factory functions in tlslite.recordlayer. SRP/ECC suites over SSLv3 framing are not judged (registry silent). Static (EC)DH and SRP_DSS suites are not configurable in the library and never negotiated.",
    "TLA+ meaning-of-name spec evaluated by TLC on observations of forced live handshakes (exhaustive over suite ids x versions)",
    "tla-negotiation")
add("C03", "model_checking",
    "Negotiation.tla (with Suites.tla for the meaning of the negotiated suite) states Agreement of the two final views (version, suite, secrets by digest, exporter output, EMS/EtM, ALPN, SNI, record size limits cross-wise, certificate chains), WithinPolicy for each side (version, cipher/MAC/key-exchange names, group, key size, EtM/EMS flags, ALPN), highest-common-version and the RFC 8449 limits derived from the two settings. Settings pairs from the restriction lattice (every pair of 11 dimensions, one per side, all their restrictions; seeded deeper mixes) x RSA/ECDSA server credential run live handshakes; TLC validates every pair: a completed handshake must be an admissible outcome for both policies, an uncompleted one must have failed on both sides.",
    "DESIGN.md section 5 C03, section 3.3, Appendix F.3",
    "Trusted: TLC, view extraction by attribute projection. The spec constrains, it does not predict, which admissible suite is chosen. SRP/anon/PSK flavours are exercised by C06/C13/C20, not by the settings lattice here.",
    "TLA+ constraint spec evaluated by TLC on both endpoints' views of live handshakes over a settings lattice (code->spec)",
    "tla-negotiation")
add("C19", "model_checking",
    "(a) Settings.tla holds the documented domains and consistency rules of HandshakeSettings; TLC judges every case (default object with 0-3 attributes edited: every documented name singly, subsets, reorderings, unknown names, empty lists, boundary/out-of-range numbers, all version pairs, related attribute pairs completely, seeded others): expected ok / ValueError, the receiver is unmodified (attribute snapshot before/after), the result validates again to an identical object, and only installed back ends remain. (b) every settings pair x credential of the C03 lattice that Negotiation.tla classifies MustConnect (shared version, suite both allow that the credential serves, common group, EMS/ALPN compatible, key size within the client's limits) must complete a live handshake.",
    "DESIGN.md section 5 C19, section 3.9",
    "Trusted: TLC, repr-based attribute snapshot. Wrong Python types are not fed. Finite-field DHE parameter/limit interplay is not predicted by MustConnect.",
    "TLA+ domain/consistency spec evaluated by TLC on validate() cases + MustConnect classification of live settings pairs",
    "tla-negotiation")
add("C18", "model_checking",
    "PlusCal models at source-line granularity of SessionCache (__getitem__/__setitem__/_purge), the RSA blinding-pair update and BaseDB, with the lock as an explicit variable and time as a monotone environment variable, are checked exhaustively by TLC for 2-3 threads (SizeBound, DictListConsistent, GetReturnsLastSetIfFresh, NeverExpiredOrInvalid, NoInternalError; ResultCorrect, PairConsistent; LockDiscipline); their NoLock variants must violate (non-vacuity, asserted in every run). Binding: (1) ALL sequential get/set histories of length 5 (thorough 6) with an arbitrary monotone clock on the real SessionCache, validated by TLC against the abstract reference CacheRef.tla; (2) real threads under a controlled scheduler (settrace line hook + cooperative locks): every schedule with <= 2 (thorough 3) preemptions plus seeded random ones, on a shared cache, a shared RSA key (toy modulus checked by TLC, PEM key against pow) and VerifierDB; linearised histories validated by TLC; (3) un-instrumented stress run.",
    "DESIGN.md section 5 C18, section 3.8",
    "Trusted: TLC, controlled scheduler (harness/sched.py), pow() as leaf. Switch points are source lines, not bytecodes; three-thread scenarios are capped (evidence lists what was completed).",
    "PlusCal/TLA+ models checked by TLC + exhaustive sequential histories and bounded-preemption real-thread schedules validated by TLC",
    "tla-concurrency")
add("C05", "model_checking",
    "AuthProof.tla enumerates every meaningful (proof site: ServerKeyExchange signature, TLS<=1.2 and TLS 1.3 CertificateVerify of server and client, post-handshake auth CertificateVerify and Finished, Finished, SRP password, PSK binder, Checker) x corruption class (bit flip, empty, truncated, extended, signature by another key of the same type while the genuine certificate is presented, signature over other data, declared scheme different from the one used, wrong secret) x key type (RSA, RSA-PSS, ECDSA, Ed25519, DSA) x version x verifying role, and checks IdentityOnlyAfterProof on the model. Each of the 271 cases is replayed: a puppet prover corrupts its proof before the message is hashed and sent (both transcripts stay consistent, so a verifier ignoring the proof would complete); TLC validates that the verifier completes and records the identity exactly for the valid-proof controls.",
    "DESIGN.md section 5 C05, section 3.2",
    "Trusted: TLC, puppet prover. The alert sent on rejection is recorded, not judged (C08's clause). Delegated credentials and brainpool keys are not driven.",
    "TLA+ authentication model + TLC-enumerated corruption cases replayed into live handshakes (spec->code), results validated by TLC",
    "tla-handshake")
add("C04", "model_checking",
    "Tamper.tla is the transcript-binding model (each side's sequence of handshake messages as seen; a Finished verifies iff unmodified and the transcripts before it are equal; completion only after the peer's Finished verified); TLC explores every attacker script of <=1 (thorough <=2) operations on the recorded honest flows of 6-13 flavours (full, HRR, session-ID/ticket/PSK resumption, RSA/DHE/ECDHE/SRP/DSS, client auth, NPN, SSLv3-TLS1.3) and checks NoDisagreement / TamperDetected. Every emitted script is concretised by a key-less MITM on the wire: EVERY byte of every unprotected handshake message x masks 01/80/FF (thorough; every 7th byte quick), drop/duplicate/swap of whole messages, 13 structured ClientHello rewritings (strip supported_versions, lower client_version, strip strong suites / EMS / EtM / ALPN / SNI / groups / sig algs / ticket / PSK). TLC validates every run (TamperTrace.tla): if both complete, the two views are ONE admissible outcome for both policies incl. the highest common version (no downgrade), and a modified message body never leads to both completing. Plus FALLBACK_SCSV scenarios with honest peers.",
    "DESIGN.md section 5 C04, section 3.2",
    "Trusted: TLC, MITM re-assembly/re-framing, view extraction. Symbolic treatment of secrets (no attack on the primitives). Anonymous key exchange is not attacked with a key-recomputing MITM.",
    "TLA+ transcript-binding model checked by TLC + TLC-enumerated attack scripts concretised on the live wire, outcomes validated by TLC",
    "tla-handshake")
add("C07", "model_checking",
    "Interop.tla (with Suites.tla) takes the capability sets of both implementations (OpenSSL's cipher table read at run time; tlslite-ng's established by self-handshakes) and enumerates every mutually supported (role assignment, version TLS1.0-1.3, suite) - 60 suites incl. DHE/ECDHE/DSS/anon/CCM/ChaCha20 - plus passes over groups (P-256/384/521, X25519, X448), certificate types (RSA, RSA-PSS, ECDSA P-256/384/521, Ed25519, DSA), ALPN modes, session resumption (ID/ticket/TLS 1.3 PSK), client authentication and no-common-parameter corners. Every case is run between a live tlslite-ng endpoint and OpenSSL over memory BIOs with payloads up to 50 000 bytes in both directions; TLC validates each result (same version, suite, ALPN, resumption state, certificate; data intact; must-fail corners fail on both sides) and that every message sequence tlslite-ng received from OpenSSL is a word of the handshake automaton HandshakeOrder.tla.",
    "DESIGN.md section 5 C07",
    "Trusted: TLC, OpenSSL 3.0 via the standard library ssl module (independent implementation), BIO pump. Not reachable through the stdlib: SSLv3, RC4, 3DES, NULL, SRP, external PSK, KeyUpdate/PHA interop, choice of the TLS 1.3 suite on the OpenSSL side.",
    "TLA+ enumeration of mutually supported configurations + TLC validation of live interop runs against an independent implementation",
    "tla-negotiation")
add("C08", "fault_enumeration",
    "ErrorContract.tla states what one API call may do under hostile input: outcome in the documented set (ok / TLSLocalAlert / TLSRemoteAlert / TLSAbruptCloseError / socket error / TLSAuthenticationError family), a library-detected violation is answered with a FATAL alert on the wire before closing, the connection is closed and the session not resumable afterwards, peak extra memory <= 40 MiB + 64 x bytes received and work <= 200 000 + 400 x bytes generator steps. Binding (code->spec): for every handshake flavour x role x message position of the peer, the honest message is replaced through the puppet by systematic mutants (every byte position incremented / zeroed / 0xFF for short messages and a stride for long ones, every truncation and extension, every declared-length field changed, type byte changed, duplicated / emptied / oversize extensions, unknown signature schemes, groups and OIDs, a 1000x zlib CompressedCertificate bomb with honest and maximal declared size) and raw record-level cases after the handshake (oversized, unknown type, SSLv2 header, empty handshake/alert records, short/long alerts, huge handshake length, CCS, heartbeat garbage, truncated KeyUpdate/NST, 10 000 empty application-data records); every observation is validated by TLC against the contract.",
    "DESIGN.md section 5 C08",
    "Trusted: TLC, puppet mutator, tracemalloc peak (allocations of BOTH endpoints are counted, so the bound is conservative), generator-step counter as work measure. Bounds are constants of the spec (cfg); 2^24 is the protocol maximum of one handshake message.",
    "TLA+ error contract + systematic message/record mutation of live handshakes with TLC validation of every observed outcome",
    "tla-connlife")


# additions made while the checks were strengthened against seeded changes (DESIGN.md section 12.5)
def more(pid, text):
    CHECKS[pid]["text"] += " " + text


more("C01", "Histories also contain three KeyUpdates per direction (TLS 1.3), configurations with a real HelloRetryRequest and asymmetric record size limits, maximal CBC padding on full-size fragments, and a final close with a read pending for more than arrives (ReadBounds: nothing received is lost at a close).")
more("C02", "Connection variants: ClientHello that offered early_data + PSK to a server limited to TLS 1.0/1.2 (the tolerance for undecryptable early records must end), and MAC-then-encrypt senders that pad to 255 bytes.")
more("C03", "Server credentials include rsa-pss, client authentication (with / without certificate), anonymous DH with FFDHE group identification (FfdheRule), a two-certificate chain, and a session made under the default policy that is offered after the server's policy changed; signature hashes and schemes are lattice dimensions (SigOk).")
more("C04", "Version-range flavours with rollback rewrites of the ClientHello: SentinelEnforced (client aborts at the marked ServerHello) and ServerMark (what the server itself wrote); FALLBACK_SCSV also with a cached session.")
more("C05", "Sites also: signed ServerKeyExchange of SRP_SHA_RSA, delegated credential signature and CertificateVerify by the delegated key; classes also: absent, stale, degenerate (SRP A = kN; (r, s) pairs), misplaced; key types also P-384, P-521, Ed448, brainpoolP256r1; positional variants of every bit / length corruption.")
more("C06", "Edits also: glue (message spanning a key change), fabricated CertificateRequest and zero-length application data; clauses late-message-aborts and aborts-at-inadmissible-message (after the record carrying the first inadmissible message the EUT sends nothing but alerts).")
more("C07", "Also: tlslite-ng's default version range against an OpenSSL pinned lower (RSA / DHE / ECDHE), HelloRetryRequest with and without ticket resumption in both roles, ECDSA certificates x every group, two rounds of post-handshake client authentication requested by OpenSSL.")
more("C08", "Also: every extension of ClientHello / ServerHello / HelloRetryRequest / EncryptedExtensions with its payload emptied, zeroed, halved ...; protected records with unknown (inner) content types; a delegated-credential flavour; every single-byte mutant, truncation and structure-aware DER mutant of every test certificate through X509.parseBinary (LeafContract); wall-clock guard (Hang).")
more("C13", "The history model carries the client's identity (authd, cid, IdentityFromProofOrResumption) and cache overflow (Evict); a lax client keeps offering invalidated session IDs.")
more("C14", "AsyncSM.tla: both endpoints driven through AsyncStateMachine (every call validated by TLC, KeyUpdate forcing a write inside a read, spin detection); the scenario ends with a TLS close that keeps the socket and a second session on the same objects; schedule with a would-block before every small piece.")
more("C16", "Every history ends with a close while a larger read is pending; bad-control kinds include a post-handshake-auth context reused after the client declined.")
more("C17", "Histories that reuse the connection after an orderly TLS close with closeSocket=False; ticket-issuing servers; resumability judged through Session.valid().")
more("C18", "Whole decrypt() calls (valid and invalid padding) of two threads with every line of utils/rsakey.py a switch point; each result must equal the lone caller's.")
more("C19", "Lattice also over certificate compression lists (against the installed codecs), signature hashes / schemes, eccCurves=[] (FFDHE only), and out-of-range integers incl. a real 0 for record_size_limit.")
more("C20", "Also: suites selected by the PEER in a version that does not define them (SEL), servers with two key pairs of different types x nine client policies (MC), the hash of the key schedule after a KeyUpdate (kuPrf), TLS 1.3 resumption across suites of one hash (RS).")
more("C02", "EarlyData.tla: scripts of undecryptable records / ChangeCipherSpec / the genuine flight presented to a TLS 1.3 server that saw early_data in the ClientHello; the skipping must stay below max_early_data in total and end with the first genuine record.")
more("C01", "The application's buffer is bytes / memoryview / bytearray / one bytearray passed to two writes; TLS 1.3 configurations with a CertificateRequest; lengths that leave an empty CBC padding.")
more("C02", "Also: SSLv2-framed splice of a genuine record on integrity-only suites (ssl2splice), HelloRetryRequest connections with a fabricated plaintext ChangeCipherSpec after the handshake (pccs), PSK offers without early_data (nothing may be skipped).")
more("C03", "Credentials also: external PSKs (one shared / unknown ones offered first) with psk_modes as a lattice dimension (pskMode in WithinPolicy and Agreement), SRP with verifier database and certificate.")
more("C04", "An untouched control run per recorded flow; TLS 1.3 client-authentication flavours; ServerMark for servers limited to TLS 1.2 / 1.1.")
more("C05", "Classes also: replayed (post-handshake authentication flight of an earlier request; signature of an earlier handshake at every signature site), SRP user name named in the ClientHello of a certificate handshake (absent).")
more("C06", "Edit rep (fabricated message in place of an honest one); tokens NOCERT (warning alert no_certificate, SSLv3 only) and JUNK (record no key protects); a fabricated HelloRequest is not hashed by the puppet.")
more("C07", "Also the converse version ranges: tlslite-ng pinned to one older version against an OpenSSL that enables everything up to TLS 1.3.")
more("C08", "Also: extension payloads announcing an empty list (vec0), HelloRetryRequest flavour in the quick tier, signature fields (sig-*) and algorithm relabelling (sigalg-*) of ServerKeyExchange / CertificateVerify, DSA client authentication.")
more("C10", "Also: a scalar whose shared X coordinate starts with a zero octet (both private-value forms), every share class as the point of a ServerKeyExchange through the TLS <= 1.2 client code with the negotiated point formats.")
more("C11", "Also: premaster version octets above the offered version, ClientHellos of a TLS 1.3 capable client against older servers.")
more("C12", "Also: content lengths whose shortest padding is the empty one.")
more("C13", "Variant verRaised (both sides meanwhile enable TLS 1.3, an older session is still offered: full handshake); abrupt closes happen while reads wait for more than has arrived.")
more("C14", "Blocking entry points (handshake, read/write, recv/recv_into/send/sendall, makefile objects, close) in two threads over a blocking socket with scheduled piece sizes, with every optional argument of the wrappers set, compared with the generator run; an application fragment size of 4 bytes during the handshake measured against the default.  Defragmenter.tla: model-checked; all behaviours of 3 calls and simulated ones of 9 calls replayed into tlslite.defragmenter.Defragmenter.")
more("C15", "Also: content rule of CompressedCertificate (what the zlib stream inflates to - leaf fact from stdlib zlib - equals the advertised length) with streams whose last symbol runs past it; SessionTicketPayload.create() with all 16 argument combinations against Enc of the denoted value.")
more("C16", "Also: heartbeat messages that fill exactly one record; two-way close by an endpoint that keeps its socket while data and a KeyUpdate of the peer are in flight.")
more("C17", "Also: close_notify answered into a broken pipe, session-ID resumptions (the session the cache / the application holds counts), a fatal alert pending when a handshake write fails (fatalsend).")
more("C18", "Also: two threads deleting the same verifier-database user; cache sessions carrying TLS 1.2 / 1.3 tickets.")
more("C19", "MustConnect also predicts finite-field DHE where neither side restricts groups or key sizes; PSK credentials as in C03.")
more("C20", "Also: the ServerHello of the server under test for ClientHellos whose legacy version and supported_versions disagree (SSEL); the record MAC recomputed with hashlib/hmac from the key handed to the MAC factory (macProbe).")
more("C02", "The data stream contains runs of zero bytes (fragments that begin with, end in or consist of zeros).")
more("C03", "The server's group policy is judged in TLS <= 1.2 too (group of its own ServerKeyExchange); triples client version range x forced key exchange x server group / key-size restriction.")
more("C05", "Class unadvertised: a correct signature with a hash the verifier did not list.")
more("C06", "Flavour with an empty NPN list; clause honest-flow-completes.")
more("C08", "Alerts (fatal, warning, close_notify, unknown level) in place of every handshake message; closed = object closed and transport closed; SSLv3 client-auth flavour.")
more("C10", "PKCS#1 v1.5 under RSA-PSS keys for every hash.")
more("C11", "Correctly padded messages of one to three octets.")
more("C13", "SRP session-ID histories.")
more("C17", "An unprotected fatal alert of the peer at every receive call of the handshake at which one is readable.")
more("C03", "The signature scheme the server used lies within both policies (hash, RSA padding scheme).")
more("C05", "Class unadvertised also at the TLS 1.3 client CertificateVerify.")
more("C06", "Fabricated messages also ahead of the peer's first message.")
more("C08", "Resumption against rotated ticket keys; the honest flow of every flavour is a case.")
more("C14", "A select()-style AsyncStateMachine loop (no draining, one record at a time) with asymmetric record size limits.")
more("C17", "A sibling connection of the same session fails (SiblingFails / DeadStaysDead).")
more("C18", "Scheduler watchdog: a thread blocked outside the scheduler's control ends the run as stuck.")
more("C20", "A session of a TLS 1.2-only suite offered again at an older version.")
