# add(pid, category, text, design_ref, note, technique, engine)
