#!/usr/bin/env python3
"""Regenerates /verif/MANIFEST.json from the table below (single source of truth)."""
import json, os
HERE = os.path.dirname(os.path.dirname(os.path.abspath(__file__)))
ALL = ["C%02d" % i for i in range(1, 21)]

# pid -> dict(category, text, design_ref, note, technique, engine)
CHECKS = {}

def add(pid, category, text, design_ref, note, technique, engine):
    CHECKS[pid] = dict(category=category, text=text, design_ref=design_ref, note=note,
                       technique=technique, engine=engine)

exec(open(os.path.join(HERE, "tools", "checks_table.py")).read())

NOT_BUILT_REASON = "check not built yet in this session (planned: see DESIGN.md section 5); not claimed until it exists"

def main():
    checks = []
    for pid in ALL:
        if pid not in CHECKS:
            continue
        c = CHECKS[pid]
        checks.append({
            "property_id": pid,
            "quick_cmd": "./check %s --tier quick" % pid,
            "thorough_cmd": "./check %s --tier thorough" % pid,
            "evidence_file": "/verif/evidence/%s.json" % pid,
            "replay_cmd_template": "./check %s --replay {path}" % pid,
            "engine": c["engine"],
            "level_claimed": {"category": c["category"], "text": c["text"], "design_ref": c["design_ref"]},
            "level_note": c["note"],
            "technique": c["technique"],
        })
    engines = {}
    for pid, c in CHECKS.items():
        engines.setdefault(c["engine"], []).append(pid)
    man = {
        "version": 1,
        "setup_cmd": "./setup.sh",
        "hooks": {
            "guard": "TLSLITE_NG_VERIF",
            "enable": "TLSLITE_NG_VERIF=1 is exported by ./check; all instrumentation is applied from outside by harness/tracer.py, harness/puppet.py, harness/env.py and the per-property drivers (run-time wrapping of methods of the classes imported from /repo's working tree); no hook code lives in /repo",
            "baseline_off_cmd": "cd /repo && env -u TLSLITE_NG_VERIF /venv/bin/python -m pytest -ra -q -p no:cacheprovider --timeout=900 --continue-on-collection-errors",
            "source_commits": [],
            "add_only": True,
        },
        "engines": [{"name": k, "path": "/verif/spec + /verif/harness", "serves_properties": sorted(v),
                     "kind_free_text": "explicit TLA+ specification checked by TLC, bound to the implementation by spec->code replay and code->spec trace validation"}
                    for k, v in sorted(engines.items())],
        "checks": checks,
        "notes": "Technique family: explicit TLA+ specifications + TLC, bound to tlslite-ng by conformance checks. See DESIGN.md.",
        "not_applicable": [{"property_id": p, "reason": NOT_BUILT_REASON} for p in ALL if p not in CHECKS],
    }
    with open(os.path.join(HERE, "MANIFEST.json"), "w") as f:
        json.dump(man, f, indent=1)
    print("MANIFEST.json: %d checks, %d not claimed" % (len(checks), len(man["not_applicable"])))

main()
