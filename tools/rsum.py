#!/usr/bin/env python3
"""summarise replay files of a property: tools/rsum.py C06"""
import json, glob, collections, re, sys
c = collections.Counter()
for f in glob.glob('/verif/out/%s/replay/*.json' % sys.argv[1]):
    d = json.load(open(f))['key']
    c[tuple((k, re.sub(r'\d+', 'N', str(v))[:120]) for k, v in sorted(d.items()))] += 1
for k, v in c.most_common(int(sys.argv[2]) if len(sys.argv) > 2 else 25):
    print(v, ' '.join('%s=%s' % kv for kv in k)[:260])
