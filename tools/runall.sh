#!/bin/bash
# run every registered check (default tier quick) on the current tree; one summary line each
tier=${1:-quick}
cd "$(dirname "$0")/.."
mkdir -p out
rc_all=0
for id in C01 C02 C03 C04 C05 C06 C07 C08 C09 C10 C11 C12 C13 C14 C15 C16 C17 C18 C19 C20; do
  s=$(date +%s)
  ./check $id --tier $tier > out/runall_$id.log 2>&1
  rc=$?
  [ $rc -ne 0 ] && rc_all=1
  echo "$id rc=$rc viol=$(grep -c '^VIOLATION' out/runall_$id.log) known=$(grep -c '^KNOWN-FINDING' out/runall_$id.log) wall=$(( $(date +%s) - s ))s $(tail -1 out/runall_$id.log | cut -c1-110)"
done
exit $rc_all
