#!/usr/bin/env python3
"""Run the registered check of a property against its seeded mutants.

  tools/seedrun.py C01            # all mutants under seeded/C01/*
  tools/seedrun.py C01/A --tier thorough
  tools/seedrun.py all

For every seeded/<ID>/<X>/patch.diff a scratch worktree of /repo HEAD is made
outside /repo and /verif, the patch applied there, the check run with
VERIF_REPO pointing at it, the worktree removed.  /repo itself is never
modified.  The evidence file of the property is restored afterwards (a mutant
run must not overwrite what the check says about the real tree).  Result goes
to seeded/<ID>/<X>/result.json.
"""
import json
import os
import shutil
import subprocess
import sys
import time

VERIF = os.path.dirname(os.path.dirname(os.path.abspath(__file__)))
REPO = "/repo"
SCRATCH = os.environ.get("VERIF_SCRATCH", "/var/tmp/verif-mut")


def sh(cmd, **kw):
    return subprocess.run(cmd, shell=True, stdout=subprocess.PIPE, stderr=subprocess.STDOUT, universal_newlines=True, **kw)


def run_one(pid, x, tier, demo=True):
    d = os.path.join(VERIF, "seeded", pid, x)
    patch = os.path.join(d, "patch.diff")
    wt = os.path.join(SCRATCH, "%s_%s" % (pid, x))
    os.makedirs(SCRATCH, exist_ok=True)
    sh("git -C %s worktree remove --force %s" % (REPO, wt))
    r = sh("git -C %s worktree add -q --detach %s HEAD" % (REPO, wt))
    if r.returncode:
        return {"error": "worktree: " + r.stdout[-300:]}
    res = {"tier": tier}
    try:
        r = sh("git -C %s apply %s" % (wt, patch))
        if r.returncode:
            # the tree has moved on since the change was seeded (fix: commits): retry with reduced context
            r = sh("git -C %s apply -C1 %s || patch -d %s -p1 --fuzz=3 -s < %s" % (wt, patch, wt, patch))
        if r.returncode:
            return {"error": "patch does not apply: " + r.stdout[-300:]}
        if demo and os.path.exists(os.path.join(d, "demo.py")):
            r = sh("PYTHONPATH=%s timeout 600 /venv/bin/python %s" % (wt, os.path.join(d, "demo.py")), cwd=wt)
            res["demo_broken"] = "PROPERTY BROKEN" in r.stdout
            res["demo_tail"] = r.stdout.strip().splitlines()[-1][:300] if r.stdout.strip() else ""
        # out/ and evidence/ of the mutant runs live in scratch space: nothing of the real tree's results is touched
        scratch_env = "VERIF_OUT=%s VERIF_EVDIR=%s" % (os.path.join(SCRATCH, "out"), os.path.join(SCRATCH, "evidence"))
        os.makedirs(os.path.join(SCRATCH, "evidence"), exist_ok=True)
        t0 = time.time()
        r = sh("%s VERIF_REPO=%s timeout 7200 %s/check %s --tier %s" % (scratch_env, wt, VERIF, pid, tier), cwd=VERIF)
        res["wall"] = round(time.time() - t0, 1)
        res["exit"] = r.returncode
        lines = r.stdout.splitlines()
        res["violations"] = sum(1 for ln in lines if ln.startswith("VIOLATION"))
        res["first"] = [ln[:400] for ln in lines if ln.startswith("VIOLATION") or ln.startswith("  {")][:4]
        res["tail"] = lines[-1][:300] if lines else ""
        res["detected"] = r.returncode == 1 and res["violations"] > 0
        # a change seeded for one property may fall under the statement of another one, too: also.txt names the
        # checks to run when the owning check misses it
        also = os.path.join(d, "also.txt")
        if not res["detected"] and os.path.exists(also):
            for other in open(also).read().split():
                r2 = sh("%s VERIF_REPO=%s timeout 7200 %s/check %s --tier %s" % (scratch_env, wt, VERIF, other, tier), cwd=VERIF)
                nv = sum(1 for ln in r2.stdout.splitlines() if ln.startswith("VIOLATION"))
                res.setdefault("other", {})[other] = {"exit": r2.returncode, "violations": nv}
                if r2.returncode == 1 and nv > 0:
                    res["detected"] = True
                    res["detected_by"] = other
                    break
    finally:
        sh("git -C %s worktree remove --force %s" % (REPO, wt))
        shutil.rmtree(wt, ignore_errors=True)
    return res


def summary():
    root = os.path.join(VERIF, "seeded")
    rows = []
    for pid in sorted(os.listdir(root)):
        d = os.path.join(root, pid)
        if not os.path.isdir(d):
            continue
        for x in sorted(os.listdir(d)):
            mp = os.path.join(d, x, "meta.json")
            rp = os.path.join(d, x, "result.json")
            if not os.path.exists(mp):
                continue
            meta = json.load(open(mp))
            res = json.load(open(rp)) if os.path.exists(rp) else {}
            q = res.get("quick", {})
            t = res.get("thorough", {})
            rows.append("| %s/%s | %s | %s | %s | %s |" % (
                pid, x, " ".join(str(meta.get("summary", "")).split())[:150], ", ".join(meta.get("files", []))[:60],
                ("detected (%d viol., %.0f s)" % (q.get("violations", 0), q.get("wall", 0))) if q.get("detected") else
                (("not reported - reclassified, see note.txt" if os.path.exists(os.path.join(d, x, "note.txt")) else "missed") if q else "-"),
                ("detected" if t.get("detected") else "missed") if t else "-"))
    with open(os.path.join(root, "SUMMARY.md"), "w") as f:
        f.write("# Seeded changes and what the owning check says\n\n"
                "Each change was written by a fresh sub-agent that saw only the property text and a scratch worktree; it compiles, "
                "passes the repository's 1714 tests, and its demo.py shows the property broken.  `tools/seedrun.py <ID>[/<X>] "
                "[--tier thorough]` reruns a row (scratch worktree of /repo HEAD + patch, `VERIF_REPO=<dir> ./check <ID>`).\n\n"
                "| mutant | change | files | quick tier | thorough tier |\n|---|---|---|---|---|\n" + "\n".join(rows) + "\n")
    print("wrote seeded/SUMMARY.md (%d rows)" % len(rows))


def main():
    if "--summary" in sys.argv:
        summary()
        return 0
    args = [a for a in sys.argv[1:] if not a.startswith("--")]
    tier = "quick"
    if "--tier" in sys.argv:
        tier = sys.argv[sys.argv.index("--tier") + 1]
        args = [a for a in args if a != tier]
    targets = []
    root = os.path.join(VERIF, "seeded")
    for a in args:
        if a == "all":
            for pid in sorted(os.listdir(root)):
                if not os.path.isdir(os.path.join(root, pid)):
                    continue
                for x in sorted(os.listdir(os.path.join(root, pid))):
                    targets.append((pid, x))
        elif "/" in a:
            targets.append(tuple(a.split("/")))
        else:
            for x in sorted(os.listdir(os.path.join(root, a))):
                targets.append((a, x))
    rc = 0
    for pid, x in targets:
        if not os.path.exists(os.path.join(root, pid, x, "patch.diff")):
            continue
        res = run_one(pid, x, tier)
        out = os.path.join(root, pid, x, "result.json")
        allr = {}
        if os.path.exists(out):
            allr = json.load(open(out))
        allr[tier] = res
        json.dump(allr, open(out, "w"), indent=1, sort_keys=True)
        print("%s/%s %s: %s  demo_broken=%s violations=%s wall=%s %s" % (
            pid, x, tier, "DETECTED" if res.get("detected") else "MISSED", res.get("demo_broken"), res.get("violations"),
            res.get("wall"), res.get("error", "")))
        if not res.get("detected"):
            rc = 1
    return rc


if __name__ == "__main__":
    sys.exit(main())
