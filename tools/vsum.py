#!/usr/bin/env python3
"""summarise VIOLATION keys in a check log"""
import sys, json, collections, re
c = collections.Counter()
for l in open(sys.argv[1]):
    if l.startswith("  {"):
        d = json.loads(l)
        k = tuple((a, re.sub(r"\d+", "N", str(b))[:160]) for a, b in sorted(d.items()) if a not in ("suite", "etm", "limits"))
        c[k] += 1
    elif l.startswith(("KNOWN", "OK", "MACHINERY", "EVIDENCE")):
        print(l.rstrip()[:300])
for k, v in c.most_common(14):
    print(v, dict(k))
